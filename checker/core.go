package main

import (
	"fmt"
	"go/constant"
	"go/token"
	"go/types"
	"os"
	"strings"

	"golang.org/x/tools/go/ssa"
)

// core holds the anchors of the root package shared by C01..C09. Only a few
// objects are named; the rest is discovered from them.
type core struct {
	c  *Ctx
	w  *World
	cg *callGraph

	config      *ssa.Function // Params.Config
	compose     *ssa.Function
	view        *ssa.Function
	viewVersion *ssa.Function
	enable      *ssa.Function // Dials.EnableVerification
	register    *ssa.Function // Dials.RegisterCallback

	fValue, fUpdates, fCbch, fMonCtl, fParams *types.Var   // Dials fields
	verified                                  *types.Named // VerifiedConfig
	verifyM                                   *types.Func

	// discovered
	storeCalls     []ssa.CallInstruction // Store/Swap/CAS on Dials.value
	storeFns       []*ssa.Function       // functions containing them, other than Config
	monitor        *ssa.Function         // goroutine root from which the store functions are reachable
	cbLoop         *ssa.Function         // function that invokes handler-typed values
	instFrameCache *instFrame
	cbHelpersCache []*cbHelper
	cbHelpersDone  bool
	ok             bool
}

const ruleAnchors = "anchors"

func (c *Ctx) need(cond bool, what string) bool {
	if _, ok := c.rules[ruleAnchors]; !ok {
		c.rule(ruleAnchors, "every named anchor object of the rule set resolves in the type-checked program (a rename makes the check undecided, never vacuously true)", 0)
	}
	if !cond {
		c.undecided(ruleAnchors, what, 0, "anchor %s not found in the current source", what)
	}
	return cond
}

var atomicStoreNames = map[string]bool{
	"(*sync/atomic.Pointer[T]).Store": true, "(*sync/atomic.Pointer[T]).Swap": true, "(*sync/atomic.Pointer[T]).CompareAndSwap": true,
	"(*sync/atomic.Value).Store": true, "(*sync/atomic.Value).Swap": true, "(*sync/atomic.Value).CompareAndSwap": true,
}
var atomicLoadNames = map[string]bool{
	"(*sync/atomic.Pointer[T]).Load": true, "(*sync/atomic.Value).Load": true,
}

func loadCore(c *Ctx) *core {
	w := c.W
	k := &core{c: c, w: w}
	k.config = w.fn("", "Params.Config")
	k.compose = w.fn("", "compose")
	k.view = w.fn("", "Dials.View")
	k.viewVersion = w.fn("", "Dials.ViewVersion")
	k.enable = w.fn("", "Dials.EnableVerification")
	k.register = w.fn("", "Dials.RegisterCallback")
	k.fValue = w.field("", "Dials", "value")
	k.fUpdates = w.field("", "Dials", "updatesChan")
	k.fCbch = w.field("", "Dials", "cbch")
	k.fMonCtl = w.field("", "Dials", "monCtl")
	k.fParams = w.field("", "Dials", "params")
	k.verified = w.named("", "VerifiedConfig")
	ok := c.need(k.config != nil, "dials.Params.Config")
	ok = c.need(k.compose != nil, "dials.compose") && ok
	ok = c.need(k.view != nil, "dials.Dials.View") && ok
	ok = c.need(k.viewVersion != nil, "dials.Dials.ViewVersion") && ok
	ok = c.need(k.enable != nil, "dials.Dials.EnableVerification") && ok
	ok = c.need(k.register != nil, "dials.Dials.RegisterCallback") && ok
	ok = c.need(k.fValue != nil && k.fUpdates != nil && k.fCbch != nil && k.fMonCtl != nil && k.fParams != nil, "dials.Dials fields value/updatesChan/cbch/monCtl/params") && ok
	ok = c.need(k.verified != nil, "dials.VerifiedConfig") && ok
	if !ok {
		return k
	}
	if it, _ := k.verified.Underlying().(*types.Interface); it != nil {
		for i := 0; i < it.NumMethods(); i++ {
			if it.Method(i).Name() == "Verify" {
				k.verifyM = it.Method(i)
			}
		}
	}
	if !c.need(k.verifyM != nil, "dials.VerifiedConfig.Verify") {
		return k
	}
	k.cg = w.callGraph()

	// who writes Dials.value
	fnSet := map[*ssa.Function]bool{}
	for _, f := range w.Funcs {
		for _, i := range allInstrs(f) {
			ci, ok := i.(ssa.CallInstruction)
			if !ok || !atomicStoreNames[calleeFullName(ci)] {
				continue
			}
			args := callArgs(ci)
			if len(args) == 0 {
				continue
			}
			if fa, ok := args[0].(*ssa.FieldAddr); ok && sameField(fieldVar(fa.X.Type(), fa.Field), k.fValue) {
				k.storeCalls = append(k.storeCalls, ci)
				if origin(f) != k.config && !fnSet[f] {
					fnSet[f] = true
					k.storeFns = append(k.storeFns, f)
				}
			}
		}
	}
	// the monitor root: the goroutine root from which the store functions are reachable
	for _, sf := range k.storeFns {
		roots, _ := k.cg.goroutineRootsOf(sf)
		for r := range roots {
			if k.monitor == nil {
				k.monitor = r
			}
		}
	}
	// the callback loop: the function that calls values of the handler types
	// (a goroutine root; handlers may also be invoked by helpers it calls)
	var handlerFns []*ssa.Function
	for _, f := range w.funcsIn("") {
		for _, i := range allInstrs(f) {
			if ci, ok := i.(ssa.CallInstruction); ok && isHandlerCall(ci) {
				if len(handlerFns) == 0 || handlerFns[len(handlerFns)-1] != f {
					handlerFns = append(handlerFns, f)
				}
			}
		}
	}
	for _, hf := range handlerFns {
		roots, _ := k.cg.goroutineRootsOf(hf)
		for r := range roots {
			if k.cbLoop == nil && r != k.monitor {
				k.cbLoop = r
			}
		}
	}
	if k.cbLoop == nil && len(handlerFns) > 0 {
		k.cbLoop = handlerFns[0]
	}
	ok = c.need(len(k.storeFns) > 0, "a monitor-side function storing to Dials.value") && ok
	ok = c.need(k.monitor != nil, "the goroutine root that reaches the store of Dials.value") && ok
	ok = c.need(k.cbLoop != nil, "the function invoking NewConfigHandler/WatchedErrorHandler values") && ok
	k.ok = ok
	return k
}

// isHandlerCall reports whether ci calls a value whose (named) type is
// dials.NewConfigHandler or dials.WatchedErrorHandler.
func isHandlerCall(ci ssa.CallInstruction) bool {
	cc := ci.Common()
	if cc.IsInvoke() || cc.StaticCallee() != nil {
		return false
	}
	return handlerTypeName(cc.Value.Type()) != ""
}

func handlerTypeName(t types.Type) string {
	n, ok := t.(*types.Named)
	if !ok {
		if a, ok2 := t.(*types.Alias); ok2 {
			return handlerTypeName(types.Unalias(a))
		}
		return ""
	}
	o := n.Origin().Obj()
	if o.Pkg() == nil || o.Pkg().Path() != modPath {
		return ""
	}
	switch o.Name() {
	case "NewConfigHandler", "WatchedErrorHandler":
		return o.Name()
	}
	return ""
}

// namedTypeName returns pkgpath.Name of the (pointer to) named type of t, with
// generic instantiation stripped.
func namedTypeName(t types.Type) string {
	if p, ok := t.Underlying().(*types.Pointer); ok {
		if _, isNamed := t.(*types.Named); !isNamed {
			t = p.Elem()
		}
	}
	t = types.Unalias(t)
	n, ok := t.(*types.Named)
	if !ok {
		return ""
	}
	o := n.Origin().Obj()
	if o.Pkg() == nil {
		return o.Name()
	}
	if o.Pkg().Path() == modPath {
		return "." + tname(o)
	}
	return strings.TrimPrefix(o.Pkg().Path(), modPath+"/") + "." + tname(o)
}

// isVerifyInvoke reports whether i is an interface invoke of
// VerifiedConfig.Verify and returns the receiver.
func (k *core) isVerifyInvoke(i ssa.Instruction) (ssa.Value, bool) {
	ci, ok := i.(ssa.CallInstruction)
	if !ok {
		return nil, false
	}
	cc := ci.Common()
	if cc.IsInvoke() && cc.Method.Origin() == k.verifyM {
		return cc.Value, true
	}
	return nil, false
}

func (k *core) verifyInvokes(f *ssa.Function) []*ssa.Call {
	var out []*ssa.Call
	for _, i := range allInstrs(f) {
		if _, ok := k.isVerifyInvoke(i); ok {
			if c, ok := i.(*ssa.Call); ok {
				out = append(out, c)
			}
		}
	}
	return out
}

// verifiedAssert returns the `x.(VerifiedConfig)` comma-ok type assertion that
// feeds the receiver of a Verify invoke.
func (k *core) verifiedAssert(recv ssa.Value) *ssa.TypeAssert {
	switch x := recv.(type) {
	case *ssa.Extract:
		if ta, ok := x.Tuple.(*ssa.TypeAssert); ok && ta.CommaOk && types.Identical(ta.AssertedType, k.verified) {
			return ta
		}
	case *ssa.TypeAssert:
		if types.Identical(x.AssertedType, k.verified) {
			return x
		}
	}
	return nil
}

// litField returns the value stored into field `name` of a composite literal
// allocated by alloc (the unique store through a FieldAddr of alloc).
func litField(alloc ssa.Value, name string) ssa.Value {
	a, ok := alloc.(*ssa.Alloc)
	if !ok {
		return nil
	}
	var val ssa.Value
	n := 0
	for _, r := range *a.Referrers() {
		fa, ok := r.(*ssa.FieldAddr)
		if !ok || fieldName(fa.X.Type(), fa.Field) != name {
			continue
		}
		for _, rr := range *fa.Referrers() {
			if s, ok := rr.(*ssa.Store); ok && s.Addr == fa {
				val = s.Val
				n++
			}
		}
	}
	if n != 1 {
		return nil
	}
	return val
}

// litFieldAt is litField for a struct variable that is filled in step by step and used more than once (`var out T;
// out.err = e; send(out); ...; out.v = cfg; send(out)`): the value field `name` holds where instruction `use` reads
// the variable - the one store to the field that reaches `use` without another store to it in between, the zero
// constant when none does (zero = true), nil when several can.
func litFieldAt(alloc ssa.Value, name string, use ssa.Instruction) (val ssa.Value, zero bool) {
	a, ok := alloc.(*ssa.Alloc)
	if !ok {
		return nil, false
	}
	var stores []*ssa.Store
	for _, r := range *a.Referrers() {
		fa, ok := r.(*ssa.FieldAddr)
		if !ok || fieldName(fa.X.Type(), fa.Field) != name {
			continue
		}
		for _, rr := range *fa.Referrers() {
			if s, ok := rr.(*ssa.Store); ok && s.Addr == fa {
				stores = append(stores, s)
			}
		}
	}
	var reaching []*ssa.Store
	for _, s := range stores {
		other := func(i ssa.Instruction) bool {
			for _, o := range stores {
				if o != s && i == ssa.Instruction(o) {
					return true
				}
			}
			return false
		}
		if reachAvoid(a.Parent(), s, func(i ssa.Instruction) bool { return i == use }, other) != nil {
			reaching = append(reaching, s)
		}
	}
	switch len(reaching) {
	case 0:
		return nil, true
	case 1:
		return reaching[0].Val, false
	}
	return nil, false
}

// allocOf unwraps MakeInterface/ChangeType to the allocation of a literal.
func allocOf(v ssa.Value) *ssa.Alloc {
	a, _ := stripConv(v).(*ssa.Alloc)
	return a
}

// litTypeName: name of the struct type allocated by a composite literal.
func litTypeName(a *ssa.Alloc) string {
	if a == nil {
		return ""
	}
	el := a.Type().(*types.Pointer).Elem()
	if _, isPtr := types.Unalias(el).(*types.Pointer); isPtr {
		return "" // the cell of a captured pointer variable, not a literal of the type
	}
	return namedTypeName(el)
}

// sendsOn lists Send instructions and select send states in f whose channel is a
// load of the given struct field.
type chanOp struct {
	Instr    ssa.Instruction // *ssa.Send or *ssa.Select
	Val      ssa.Value       // value sent (nil for receives)
	Chan     ssa.Value
	Blocking bool
	InSelect bool
	Send     bool
	Sel      *ssa.Select
	StateIdx int
}

func chanOps(f *ssa.Function) []chanOp {
	var out []chanOp
	for _, i := range allInstrs(f) {
		switch x := i.(type) {
		case *ssa.Send:
			out = append(out, chanOp{Instr: x, Val: x.X, Chan: x.Chan, Blocking: true, Send: true})
		case *ssa.UnOp:
			if x.Op == token.ARROW {
				out = append(out, chanOp{Instr: x, Chan: x.X, Blocking: true})
			}
		case *ssa.Select:
			for si, st := range x.States {
				out = append(out, chanOp{Instr: x, Val: st.Send, Chan: st.Chan, Blocking: x.Blocking, InSelect: true,
					Send: st.Dir == types.SendOnly, Sel: x, StateIdx: si})
			}
		}
	}
	return out
}

// chanIsField reports whether channel value ch is a load of struct field fld
// (possibly through a local copy).
func chanIsField(ch ssa.Value, fld *types.Var) bool {
	ch = stripConv(ch)
	if _, ok := isFieldLoad(ch, fld); ok {
		return true
	}
	return false
}

// isCtxDone reports whether ch is the result of calling Done() on a
// context.Context value, returning the context.
func isCtxDone(ch ssa.Value) (ssa.Value, bool) {
	c, ok := ch.(*ssa.Call)
	if !ok {
		return nil, false
	}
	if calleeFullName(c) == "(context.Context).Done" {
		return c.Call.Value, true
	}
	return nil, false
}

// eventChanRecv reports whether channel value ch is a load of a struct field
// whose element type is the userCallbackEvent interface (the callback queue).
func isEventChan(t types.Type) bool {
	ch, ok := t.Underlying().(*types.Chan)
	if !ok {
		return false
	}
	return namedTypeName(ch.Elem()) == ".userCallbackEvent"
}

// checkCbLoopDrains: the callback loop may only return after a non-blocking
// receive on the callback queue found it empty, or after the queue was closed
// and drained. Otherwise queued (error / new-config / unregister) events are
// silently dropped although the queue never overflowed.
func (k *core) checkCbLoopDrains(rule string) {
	c := k.c
	f := k.cbLoop
	n := 0
	// emptyKnown: the block is only entered after a non-blocking receive found the queue empty (or the queue was
	// closed and drained); through a boolean "there was an event" flag joined from constants (a fetch helper folded
	// back in: `return ev, true` / `return nil, false`) the question moves to the edges that carry the exit value
	var emptyKnown func(blk *ssa.BasicBlock, depth int) bool
	emptyKnown = func(blk *ssa.BasicBlock, depth int) bool {
		for _, ec := range condsDominating(blk) {
			cond, val := ec.Cond, ec.Val
			for {
				if u, isNot := cond.(*ssa.UnOp); isNot && u.Op == token.NOT {
					cond, val = u.X, !val
					continue
				}
				break
			}
			if ph, isPhi := cond.(*ssa.Phi); isPhi && depth < 3 {
				all, some := true, false
				for ei, e := range ph.Edges {
					cst, isC := e.(*ssa.Const)
					if !isC || cst.Value == nil || cst.Value.Kind() != constant.Bool {
						all = false
						break
					}
					if constant.BoolVal(cst.Value) != val {
						continue
					}
					some = true
					if !emptyKnown(ph.Block().Preds[ei], depth+1) {
						all = false
					}
				}
				if all && some {
					return true
				}
				continue
			}
			if val {
				continue
			}
			switch x := cond.(type) {
			case *ssa.BinOp:
				if x.Op != token.EQL {
					continue
				}
				ex, okx := x.X.(*ssa.Extract)
				idx, okc := constInt(x.Y)
				if !okx || !okc || ex.Index != 0 {
					continue
				}
				sel, oks := ex.Tuple.(*ssa.Select)
				if !oks || sel.Blocking || int(idx) >= len(sel.States) {
					continue
				}
				// the select's only way out besides this state must be `default`
				st := sel.States[idx]
				if st.Dir == types.RecvOnly && isEventChan(st.Chan.Type()) && len(sel.States) == 1 {
					return true
				}
			case *ssa.Extract:
				// v, ok := <-ch  (range over the queue): exit when !ok
				if u, oku := x.Tuple.(*ssa.UnOp); oku && u.Op == token.ARROW && u.CommaOk && x.Index == 1 && isEventChan(u.X.Type()) {
					return true
				}
			}
		}
		return false
	}
	for _, r := range returnsOf(f) {
		n++
		ok := emptyKnown(r.Block(), 0)
		// `for ev := range ch` lowers to a Next-less receive: t = <-ch,ok ; if ok
		c.check(ok, rule, relName(f)+"#return", r.Pos(),
			"the callback loop returns only after a non-blocking receive found the queue empty (or the queue was closed and drained)",
			"the callback loop can return while events are still queued (no empty-queue test dominates this return)")
	}
	if n == 0 {
		c.ok(rule, relName(f)+"#return", f.Pos(), "the callback loop has no return (runs until the process exits)")
	}
}

// skipFlagOrigins returns the non-phi origins of the value passed for the
// bool (skipVerify) parameter of the storing function at its call sites in the
// monitor.
type flagOrigin struct {
	V    ssa.Value
	Kind string // "delay-load", "not-call", "other"
	Fn   *ssa.Function
}

func (k *core) skipFlagOrigins() (args []ssa.Value, origins []flagOrigin) {
	delay := k.w.field("", "Params", "DelayInitialVerification")
	seen := map[ssa.Value]bool{}
	var walk func(v ssa.Value)
	walk = func(v ssa.Value) {
		if seen[v] {
			return
		}
		seen[v] = true
		switch x := v.(type) {
		case *ssa.Phi:
			for ei, e := range x.Edges {
				// the constant false on a path on which the flag is already known false (the "not skipping: nothing
				// to switch on" branch written as an assignment) changes nothing
				if cst, ok := e.(*ssa.Const); ok && cst.Value != nil && cst.Value.ExactString() == "false" {
					pred := x.Block().Preds[ei]
					known := false
					for _, ec := range condsDominating(pred) {
						if ph, isPhi := ec.Cond.(*ssa.Phi); isPhi && !ec.Val && isBoolLoopPhi(ph) {
							known = true
						}
					}
					if known {
						continue
					}
				}
				walk(e)
			}
			return
		case *ssa.UnOp:
			if x.Op == token.NOT {
				if call, ok := x.X.(*ssa.Call); ok {
					if f := staticCallee(call); f != nil && k.w.inRepo(f) {
						origins = append(origins, flagOrigin{V: v, Kind: "not-call", Fn: f})
						return
					}
				}
			}
			if x.Op == token.MUL {
				if a, ok := x.X.(*ssa.Alloc); ok {
					for _, r := range *a.Referrers() {
						if s, ok := r.(*ssa.Store); ok && s.Addr == a {
							walk(s.Val)
						}
					}
					return
				}
			}
		}
		if _, ok := isFieldLoad(v, delay); ok && delay != nil {
			origins = append(origins, flagOrigin{V: v, Kind: "delay-load"})
			return
		}
		origins = append(origins, flagOrigin{V: v, Kind: "other"})
	}
	fr := k.frame()
	for _, sf := range k.storeFns {
		for _, ci := range callsToFn(fr.fn, sf) {
			for ai, a := range ci.Common().Args {
				if ai < len(sf.Params) {
					if b, ok := sf.Params[ai].Type().Underlying().(*types.Basic); ok && b.Kind() == types.Bool {
						args = append(args, a)
						if ma := fr.toMonitor(a); ma != a {
							// the flag reaches the storing function through the install frame's parameter
							args = append(args, ma)
							a = ma
						}
						walk(a)
					}
				}
			}
		}
	}
	return
}

// checkSkipFlag: verification of re-stacks is skipped only while the delay is
// in force: the flag is initialised from DelayInitialVerification alone and
// otherwise only assigned the negation of the enable helper's result.
func (k *core) checkSkipFlag(rule string) []flagOrigin {
	c := k.c
	args, origins := k.skipFlagOrigins()
	name := relName(k.monitor) + "#skipVerify"
	if len(args) == 0 {
		c.bad(rule, name, k.monitor.Pos(), "the monitor does not pass a skip-verification flag to the storing function")
		return nil
	}
	for _, o := range origins {
		switch o.Kind {
		case "delay-load":
			c.ok(rule, name+"-init", o.V.Pos(), "flag initialised from Params.DelayInitialVerification")
		case "not-call":
			hasVerify := len(k.verifySites(o.Fn)) > 0
			c.check(hasVerify, rule, name+"-transition", o.V.Pos(),
				"flag reassigned only to !"+relName(o.Fn)+"(...) (the enable helper, which invokes Verify)",
				"flag reassigned from a function that never invokes Verify")
		default:
			c.bad(rule, name+"-origin", o.V.Pos(), "skip-verification flag can also take the value %s (only DelayInitialVerification and the negated enable result are allowed)", canon(o.V))
		}
	}
	return origins
}

// checkBlockingForwarders: every type of the repository that declares its own
// BlockingReportNewValue(ctx, reflect.Value) error (a WatchArgs wrapper; the
// Dials implementation itself is checked by blocking-returns-error) forwards
// to the wrapped WatchArgs' BlockingReportNewValue and returns that call's
// result on every path that does not return an earlier, tested error. A wrapper
// that forwards to the non-blocking report returns before the value is
// installed and swallows the stacking / verification error.
func (k *core) checkBlockingForwarders(rule string) {
	c := k.c
	w := c.W
	n := 0
	for _, f := range w.Funcs {
		if f.Name() != "BlockingReportNewValue" || f.Signature.Recv() == nil || f.Parent() != nil || len(f.Blocks) == 0 {
			continue
		}
		if f.Pkg != nil && f.Pkg.Pkg.Path() == modPath {
			continue // the Dials implementation itself
		}
		n++
		c.analysed(relName(f))
		var fwd *ssa.Call
		other := ""
		for _, i := range allInstrs(f) {
			ci, ok := i.(*ssa.Call)
			if !ok {
				continue
			}
			switch calleeFullName(ci) {
			case "(" + modPath + ".WatchArgs).BlockingReportNewValue":
				fwd = ci
			case "(" + modPath + ".WatchArgs).ReportNewValue":
				other = "ReportNewValue"
			}
		}
		if fwd == nil {
			msg := "the wrapper does not forward to the wrapped arguments' BlockingReportNewValue"
			if other != "" {
				msg += " (it calls " + other + ": the report returns before the value is installed, and a stacking or verification error is never returned)"
			}
			c.bad(rule, relName(f), f.Pos(), "%s", msg)
			continue
		}
		okRet := true
		for _, r := range returnsOf(f) {
			rv := retVals(r)
			if len(rv) != 1 {
				okRet = false
				continue
			}
			if rv[0] == ssa.Value(fwd) {
				continue
			}
			// an earlier error: must be known non-nil here
			if isNilConst(rv[0]) {
				okRet = false
			}
		}
		c.check(okRet, rule, relName(f), f.Pos(), "forwards to the wrapped BlockingReportNewValue and returns its result (other returns carry an earlier error)", "a return of the wrapper yields nil or drops the result of the wrapped BlockingReportNewValue")
	}
	if n == 0 {
		c.bad(rule, "wrappers", token.NoPos, "no WatchArgs wrapper declaring BlockingReportNewValue found (sourcewrap.wrappedWatchArgs expected)")
	}
}

// checkEventsRefreshedOnEnable: the enable helper (the function whose negated
// result ends the skip-verification phase) flushes the one-slot Events channel
// on its success path: a config parked there was sent while verification was
// off. Every return of `true` is preceded by a non-blocking receive on the
// Events channel, and whatever is sent back on it is the config that was just
// verified (the Verify receiver / the value replied).
func (k *core) checkEventsRefreshedOnEnable(rule string) {
	c := k.c
	_, origins := k.skipFlagOrigins()
	n := 0
	for _, o := range origins {
		if o.Kind != "not-call" || o.Fn == nil {
			continue
		}
		f := o.Fn
		n++
		c.analysed(relName(f))
		var flush ssa.Instruction
		for _, op := range chanOps(f) {
			if !op.Send && op.Sel != nil && !op.Sel.Blocking && chanIsField(op.Chan, k.fUpdates) {
				flush = op.Sel
			}
		}
		okAll := flush != nil
		for _, r := range returnsOf(f) {
			rv := retVals(r)
			if len(rv) != 1 {
				continue
			}
			if cst, ok := rv[0].(*ssa.Const); ok && cst.Value != nil && cst.Value.ExactString() == "true" {
				if flush == nil || !domI(flush, r) {
					okAll = false
				}
			}
		}
		// re-sends use the verified config
		verified := k.verifySites(f)
		for _, op := range chanOps(f) {
			if op.Send && chanIsField(op.Chan, k.fUpdates) {
				okV := false
				op.Val = livePhiValue(op.Val, op.Instr.Block()) // the verified config as it comes out of a folded helper
				for _, vs := range verified {
					recv := vs.Recv
					if vs.wrap == nil {
						recv = vs.Call.Common().Value
					}
					if derivesAny(recv, func(x ssa.Value) bool { return x == op.Val }, nil) || derivesAny(op.Val, func(x ssa.Value) bool { return sameValue(x, recv) }, nil) || sharesLoad(op.Val, recv) {
						okV = true
					}
				}
				if !okV {
					okAll = false
				}
			}
		}
		pos := f.Pos()
		if flush != nil {
			pos = flush.Pos()
		}
		c.check(okAll, rule, relName(f), pos, "the success path of the enable helper takes a parked config out of the Events channel (non-blocking) and only puts the verified one back",
			"the enable helper switches verification on without flushing the Events channel: a config sent while verification was delayed (never verified) is still the next value a consumer receives after EnableVerification succeeded")
	}
	if n == 0 {
		c.bad(rule, relName(k.monitor), k.monitor.Pos(), "no enable helper found")
	}
	// the flush above takes exactly one parked config out: the channel must not be able to park more than one
	for _, f := range k.w.funcsIn("") {
		for _, i := range allInstrs(f) {
			mc, ok := i.(*ssa.MakeChan)
			if !ok {
				continue
			}
			for _, r := range *mc.Referrers() {
				st, ok := r.(*ssa.Store)
				if !ok {
					continue
				}
				fa, ok := st.Addr.(*ssa.FieldAddr)
				if !ok || !sameField(fieldVar(fa.X.Type(), fa.Field), k.fUpdates) {
					continue
				}
				sz, isC := constInt(mc.Size)
				c.check(isC && sz == 1, rule, relName(f)+"#capacity", mc.Pos(), "the Events channel parks at most one config, the one the enable helper's flush replaces",
					"the Events channel can park more than one config, but the enable helper's flush replaces only one: configs sent while verification was delayed (never verified) are still delivered to an Events consumer after EnableVerification succeeded")
			}
		}
	}
}

// sharesLoad: a and b derive from the same ViewVersion/load call result.
func sharesLoad(a, b ssa.Value) bool {
	root := func(v ssa.Value) ssa.Value {
		for i := 0; i < 6; i++ {
			switch x := v.(type) {
			case *ssa.Extract:
				return x.Tuple
			case *ssa.MakeInterface:
				v = x.X
			case *ssa.ChangeInterface:
				v = x.X
			case *ssa.ChangeType:
				v = x.X
			case *ssa.TypeAssert:
				v = x.X
			default:
				return v
			}
		}
		return v
	}
	return root(a) == root(b)
}

// eventsSendsIn lists the sends on the Events channel that function f performs,
// including those it performs through a forwarding helper: an unexported,
// non-escaping function of the root package that starts no goroutine and whose
// only operation on the Events channel is a send of one of its own parameters.
// For a forwarded send, Instr is the call in f and Val the argument passed.
func (k *core) eventsSendsIn(f *ssa.Function) []chanOp {
	var out []chanOp
	for _, op := range chanOps(f) {
		if op.Send && chanIsField(op.Chan, k.fUpdates) {
			out = append(out, op)
		}
	}
	for _, i := range allInstrs(f) {
		call, ok := i.(*ssa.Call)
		if !ok {
			continue
		}
		h := staticCallee(call)
		if pi, blocking, ok := k.eventsForwarder(h); ok {
			args := call.Call.Args
			if pi < len(args) {
				out = append(out, chanOp{Instr: call, Val: args[pi], Blocking: blocking, Send: true, Chan: nil})
			}
		}
	}
	return out
}

// eventsForwarder: h only forwards one of its parameters to the Events channel.
func (k *core) eventsForwarder(h *ssa.Function) (param int, blocking, ok bool) {
	if h == nil || len(h.Blocks) == 0 || isAPI(h) || h.Parent() != nil || k.w.pkgRelOfFn(h) != "" {
		return 0, false, false
	}
	cg := k.w.callGraph()
	if cg.escapes[origin(h)] {
		return 0, false, false
	}
	n := 0
	for _, i := range allInstrs(h) {
		if _, isGo := i.(*ssa.Go); isGo {
			return 0, false, false
		}
	}
	for _, op := range chanOps(h) {
		if !chanIsField(op.Chan, k.fUpdates) {
			continue
		}
		if !op.Send {
			return 0, false, false
		}
		p, isP := op.Val.(*ssa.Parameter)
		if !isP {
			return 0, false, false
		}
		for pi, hp := range h.Params {
			if hp == p {
				param = pi
			}
		}
		blocking = op.Blocking
		n++
	}
	return param, blocking, n == 1
}

// enableHelper returns the function whose negated result ends the skip-verification phase.
func (k *core) enableHelper() *ssa.Function {
	_, origins := k.skipFlagOrigins()
	for _, o := range origins {
		if o.Kind == "not-call" && o.Fn != nil {
			return o.Fn
		}
	}
	return nil
}

// ---- rules added after the third round of seeded changes ---------------------------------------

// checkMonitorOpsBounded: in the functions the monitor goroutine calls (not its own main select, which has
// its own rule) every channel operation is non-blocking, except the single answer on a reply channel (an
// error channel of a value update, the response channel of a verification request), whose room is
// established by reply-capacity. A bare receive or send on one of the Dials channels there can wedge the
// monitor for good (and with it every report, Done and enable).
func (k *core) checkMonitorOpsBounded(rule string) {
	c := k.c
	reach := k.cg.reachableFrom(k.monitor, false)
	n := 0
	for f := range reach {
		if f == k.monitor || k.w.pkgRelOfFn(f) != "" {
			continue
		}
		for _, op := range chanOps(f) {
			if !op.Blocking {
				continue
			}
			n++
			isReply := op.Send && op.Sel == nil && (isErrorChan(op.Chan.Type()) || strings.Contains(typeStr(op.Chan.Type()), "verifyEnableResp"))
			c.check(isReply, rule, relName(f)+"#"+canon(op.Chan), op.Instr.Pos(), "the only blocking operation is the single answer on a roomy reply channel",
				"a blocking channel operation on "+canon(op.Chan)+" in a function the monitor goroutine calls: if the other side is not there (a consumer took the parked value, nobody reads) the monitor blocks forever and nothing is installed any more")
		}
	}
	if n == 0 {
		c.bad(rule, relName(k.monitor), k.monitor.Pos(), "no blocking operation found on the monitor's call paths (the reply sends were expected)")
	}
}

// checkAssertsGuarded: on the goroutine roots' call paths a non-comma-ok type assertion panics the process
// when the operand is nil or of another type. Each one must assert the result of compose under a known-nil
// compose error (compose returns the address of a fresh T with a nil error), be preceded by a successful
// comma-ok assertion of the same value, or - in a helper - satisfy that at every call site for the argument.
func (k *core) checkAssertsGuarded(rule string) {
	c := k.c
	reach := k.cg.reachableFrom(k.monitor, false)
	for f := range k.cg.reachableFrom(k.cbLoop, false) {
		reach[f] = true
	}
	var okAt func(v ssa.Value, at ssa.Instruction, depth int) bool
	okAt = func(v ssa.Value, at ssa.Instruction, depth int) bool {
		v = stripConv(v)
		if depth > 3 {
			return false
		}
		// compose result under composeErr == nil
		if ex, ok := v.(*ssa.Extract); ok && ex.Index == 0 {
			if call, ok := ex.Tuple.(*ssa.Call); ok && staticCallee(call) == origin(k.compose) {
				for _, r := range *call.Referrers() {
					if e, ok := r.(*ssa.Extract); ok && e.Index == 1 && knownNil(at.Block(), e, true) {
						return true
					}
				}
				return false
			}
		}
		// a parameter: every call site
		if p, ok := v.(*ssa.Parameter); ok {
			f := p.Parent()
			pi := -1
			for i, fp := range f.Params {
				if fp == p {
					pi = i
				}
			}
			n := 0
			for _, e := range k.cg.in[origin(f)] {
				if e.Site == nil {
					continue
				}
				n++
				if !okAt(e.Site.Common().Args[pi], e.Site.(ssa.Instruction), depth+1) {
					return false
				}
			}
			return n > 0 && !k.cg.escapes[origin(f)]
		}
		return false
	}
	n := 0
	for f := range reach {
		if k.w.pkgRelOfFn(f) != "" {
			continue
		}
		for _, i := range allInstrs(f) {
			ta, ok := i.(*ssa.TypeAssert)
			if !ok || ta.CommaOk {
				continue
			}
			n++
			c.check(okAt(ta.X, ta, 0), rule, relName(f)+"#"+canon(ta.X), ta.Pos(), "the asserted value is the compose result under a nil compose error (at every call site, for a helper's parameter)",
				"an unchecked type assertion on "+canon(ta.X)+" runs on a background goroutine where the operand can be nil (e.g. the compose result when stacking failed): the panic kills the process")
		}
	}
	if n == 0 {
		c.okTrivial(rule, "goroutines", 0, "no unchecked type assertion on the goroutine roots' call paths")
	}
}

// checkParamsReadOnly: the behaviour flags of Params are never assigned in the root package (the monitor,
// the callback loop and EnableVerification read them at different times and must see what the caller set).
func (k *core) checkParamsReadOnly(rule string) {
	c := k.c
	bad := 0
	for _, f := range k.w.funcsIn("") {
		for _, i := range allInstrs(f) {
			st, ok := i.(*ssa.Store)
			if !ok {
				continue
			}
			fa, ok := st.Addr.(*ssa.FieldAddr)
			if !ok {
				continue
			}
			if n := namedTypeName(fa.X.Type()); n != ".Params" {
				continue
			}
			fld := fieldName(fa.X.Type(), fa.Field)
			switch fld {
			case "DelayInitialVerification", "SkipInitialVerification", "CallGlobalCallbacksAfterVerificationEnabled", "OnNewConfig", "OnWatchedError":
				bad++
				c.bad(rule, relName(f)+"#"+fld, st.Pos(), "Params.%s is assigned inside the library: code that reads it later (the monitor's suppression, EnableVerification's fast path) no longer sees what the caller asked for", fld)
			}
		}
	}
	if bad == 0 {
		c.ok(rule, "dials", k.config.Pos(), "no assignment to the verification / callback fields of Params in the root package")
	}
}

// checkEveryInstallAnnounced: in the monitor the new-config event is submitted exactly when the storing
// function returned a non-nil config - no further condition (an install that is not announced makes a
// registered callback skip a version and breaks old == predecessor).
func (k *core) checkEveryInstallAnnounced(rule string) {
	c := k.c
	m := k.frame().fn
	n := 0
	for _, sf := range k.storeFns {
		for _, ci := range callsToFn(m, sf) {
			call := ci.(*ssa.Call)
			for _, i := range allInstrs(m) {
				al, ok := i.(*ssa.Alloc)
				if !ok || litTypeName(al) != ".newConfigEvent" {
					continue
				}
				if nc := litField(al, "newConfig"); nc != ssa.Value(call) {
					continue
				}
				// the submit call taking this literal
				for _, r := range *al.Referrers() {
					mi, ok := r.(*ssa.MakeInterface)
					if !ok {
						continue
					}
					for _, rr := range *mi.Referrers() {
						sub, ok := rr.(*ssa.Call)
						if !ok {
							continue
						}
						n++
						pb := &predBuilder{name: func(v ssa.Value) string {
							if v == ssa.Value(call) {
								return "newConfig"
							}
							return ""
						}}
						g := pb.pathCond(call.Block(), sub.Block())
						// equivalence with `newConfig != nil` for every value of any other atom (conditions that
						// only compute the event's fields, such as a && inside the literal, cancel out)
						fb, fi := map[string]bool{}, map[string]bool{}
						atomsOf(g, fb, fi)
						rows, counter := forAll(g, nil, func(e env, fv bool) bool { return fv == !e.B["isnil(newConfig)"] })
						if !fb["isnil(newConfig)"] && counter == "" {
							counter = "the submit does not depend on the storing function's result"
						}
						if counter == "" {
							c.okRows(rule, relName(m)+"#announce", sub.Pos(), rows, "the event is submitted exactly when newConfig != nil (%d assignments)", rows)
						} else {
							c.bad(rule, relName(m)+"#announce", sub.Pos(), "the new-config event is not submitted exactly when the storing function returned a config (an extra condition can skip the announcement of an installed version): %s", counter)
						}
					}
				}
			}
		}
	}
	if n == 0 {
		c.bad(rule, relName(m), m.Pos(), "no new-config event built from the storing function's result")
	}
}

// checkExitOnFreshScan: the monitor leaves its loop on a Done event only on the strength of a scan of the
// slots' watching bits made while handling that very event, never on state carried from earlier events
// (a counter decremented per Done is wrong as soon as one source calls Done twice).
func (k *core) checkExitOnFreshScan(rule string) {
	c := k.c
	m := k.monitor
	fWatching := k.w.field("", "sourceValue", "watching")
	if !c.need(fWatching != nil, "dials.sourceValue.watching") {
		return
	}
	readsDirect := func(f *ssa.Function) bool {
		for _, i := range allInstrs(f) {
			if fl, ok := i.(*ssa.Field); ok && sameField(fieldVar(fl.X.Type(), fl.Field), fWatching) {
				return true
			}
			if fa, ok := i.(*ssa.FieldAddr); ok && sameField(fieldVar(fa.X.Type(), fa.Field), fWatching) {
				for _, r := range *fa.Referrers() {
					if u, ok := r.(*ssa.UnOp); ok && u.Op == token.MUL {
						return true
					}
				}
			}
		}
		return false
	}
	// the functions that do the scanning on behalf of f: f itself, or root-package helpers it calls (two levels)
	var scanFns func(f *ssa.Function, depth int) []*ssa.Function
	scanFns = func(f *ssa.Function, depth int) []*ssa.Function {
		var out []*ssa.Function
		if readsDirect(f) {
			out = append(out, f)
		}
		if depth == 0 {
			return out
		}
		for _, i := range allInstrs(f) {
			if ci, ok := i.(*ssa.Call); ok {
				if callee := staticCallee(ci); callee != nil && callee != f && k.w.pkgRelOfFn(callee) == "" && len(callee.Blocks) > 0 {
					out = append(out, scanFns(callee, depth-1)...)
				}
			}
		}
		return out
	}
	readsWatching := func(f *ssa.Function) bool { return len(scanFns(f, 2)) > 0 }
	// loop header of the monitor
	var hdr *ssa.BasicBlock
	for _, b := range m.Blocks {
		for _, p := range b.Preds {
			if b.Dominates(p) && hdr == nil {
				hdr = b
			}
		}
	}
	n := 0
	for _, r := range returnsOf(m) {
		// the ctx.Done() arm returns unconditionally; look at returns controlled by a data condition
		for _, ec := range condsDominating(r.Block()) {
			if hdr == nil || !(hdr == ec.If.Block() || hdr.Dominates(ec.If.Block())) {
				continue
			}
			if _, isSel := selectIndexOf(ec.Cond); isSel {
				continue
			}
			if ex, ok := ec.Cond.(*ssa.Extract); ok {
				if _, isTA := ex.Tuple.(*ssa.TypeAssert); isTA {
					continue // the type switch over the event
				}
			}
			if hb := ec.If.Block(); hb != hdr && isLoopHeader(hb) && !ec.Val {
				// "the inner loop ran to its end": implied by the value of a join behind a scanning loop that was
				// written into the monitor; the join itself is the data condition and is looked at on its own
				continue
			}
			n++
			fresh, stale := false, false
			seen := map[ssa.Value]bool{}
			var walk func(v ssa.Value, d int)
			walk = func(v ssa.Value, d int) {
				if v == nil || seen[v] || d > 8 {
					return
				}
				seen[v] = true
				switch x := v.(type) {
				case *ssa.Phi:
					if x.Block() == hdr {
						stale = true
						return
					}
					for _, e := range x.Edges {
						walk(e, d+1)
					}
				case *ssa.Call:
					if callee := staticCallee(x); callee != nil && readsWatching(callee) {
						fresh = true
						return
					}
					for _, a := range x.Call.Args {
						walk(a, d+1)
					}
				case *ssa.BinOp:
					walk(x.X, d+1)
					walk(x.Y, d+1)
				case *ssa.UnOp:
					walk(x.X, d+1)
				case *ssa.Extract:
					walk(x.Tuple, d+1)
				}
			}
			walk(ec.Cond, 0)
			// the scan is complete: in the callee, the loop that reads the watching bits is left early only by
			// returning "someone is still watching" (true); a break in that loop would skip the later slots
			if fresh {
				for _, ci := range allInstrs(m) {
					call, ok := ci.(*ssa.Call)
					if !ok {
						continue
					}
					callee0 := staticCallee(call)
					if callee0 == nil || !readsWatching(callee0) {
						continue
					}
					for _, callee := range scanFns(callee0, 2) {
						scanLoops := 0
						for _, h := range loopHeaders(callee) {
							for _, b := range callee.Blocks {
								if b != h && !inLoopBody(h, b) {
									continue
								}
								for _, bi := range b.Instrs {
									if fl, ok := bi.(*ssa.Field); ok && sameField(fieldVar(fl.X.Type(), fl.Field), fWatching) {
										scanLoops++
									}
									if fa, ok := bi.(*ssa.FieldAddr); ok && sameField(fieldVar(fa.X.Type(), fa.Field), fWatching) {
										scanLoops++
									}
								}
							}
						}
						if scanLoops == 0 {
							// the watching bits are read, but not in a loop over the slots: at most one slot is looked at
							fresh = false
						}
						for _, h := range loopHeaders(callee) {
							reads := false
							for _, b := range callee.Blocks {
								if b != h && !inLoopBody(h, b) {
									continue
								}
								for _, bi := range b.Instrs {
									if fl, ok := bi.(*ssa.Field); ok && sameField(fieldVar(fl.X.Type(), fl.Field), fWatching) {
										reads = true
									}
									if fa, ok := bi.(*ssa.FieldAddr); ok && sameField(fieldVar(fa.X.Type(), fa.Field), fWatching) {
										for _, rr := range *fa.Referrers() {
											if u, ok := rr.(*ssa.UnOp); ok && u.Op == token.MUL {
												reads = true
											}
										}
									}
								}
							}
							if !reads {
								continue
							}
							for _, b := range callee.Blocks {
								if b == h || !inLoopBody(h, b) {
									continue
								}
								for _, sc := range b.Succs {
									if sc == h || inLoopBody(h, sc) {
										continue
									}
									// leaving the loop before it is exhausted: only with the answer "someone is still watching":
									// `return true`, or the return of the very flag whose truth is the exit condition
									// (`for ...; i < n && !found; ... { found = s[i].watching }; return found`)
									okExit := false
									var exitCond ssa.Value
									exitVal := false
									if iff, ok := b.Instrs[len(b.Instrs)-1].(*ssa.If); ok && b.Succs[0] != b.Succs[1] {
										exitCond, exitVal = iff.Cond, b.Succs[0] == sc
										for {
											u, ok := exitCond.(*ssa.UnOp)
											if !ok || u.Op != token.NOT {
												break
											}
											exitCond, exitVal = u.X, !exitVal
										}
									}
									// the return reached from the exit (through unconditional jumps)
									tgt, from := sc, b
									for hops := 0; hops < 4; hops++ {
										if _, isRet := tgt.Instrs[len(tgt.Instrs)-1].(*ssa.Return); isRet {
											break
										}
										if len(tgt.Succs) != 1 {
											break
										}
										from, tgt = tgt, tgt.Succs[0]
									}
									if ret, ok := tgt.Instrs[len(tgt.Instrs)-1].(*ssa.Return); ok && len(ret.Results) == 1 {
										rv := ret.Results[0]
										if ph, isPhi := rv.(*ssa.Phi); isPhi && ph.Block() == tgt {
											for pi, pr := range tgt.Preds {
												if pr == from {
													rv = ph.Edges[pi]
												}
											}
										}
										if cst, ok := rv.(*ssa.Const); ok && cst.Value != nil && cst.Value.ExactString() == "true" {
											okExit = true
										}
										// `return idx >= 0` with idx the joined result of an index search (the slot found,
										// or -1): on this exit idx is the loop's own (non-negative) index
										if cmp, ok := retVals(ret)[0].(*ssa.BinOp); ok {
											if ph, isPhi := cmp.X.(*ssa.Phi); isPhi && ph.Block() == tgt {
												for pi, pr := range tgt.Preds {
													if pr != from {
														continue
													}
													if n, isC := constInt(cmp.Y); isC && isForwardRangeIndex(ph.Edges[pi]) {
														switch {
														case cmp.Op == token.GEQ && n <= 0, cmp.Op == token.GTR && n < 0, cmp.Op == token.NEQ && n < 0:
															okExit = true
														}
													}
												}
											}
										}
										if exitCond != nil && rv == exitCond && exitVal {
											okExit = true
										}
									}
									if !okExit {
										fresh = false
									}
								}
							}
						}
					}
				}
			}
			if !fresh && !stale {
				fresh = inlineWatchScan(m, hdr, ec.Cond, fWatching)
			}
			if !fresh && os.Getenv("VERIF_DEBUG") != "" {
				fmt.Fprintf(os.Stderr, "DEBUG exit cond %s = %v val=%v in block %d\n", ec.Cond.Name(), ec.Cond, ec.Val, ec.If.Block().Index)
			}
			c.check(fresh && !stale, rule, relName(m)+"#exit#"+itoa(n), r.Pos(), "the exit decision comes from a complete scan of the watching bits made for this event",
				"the monitor's exit on a Done event depends on state carried across events (or on nothing that reads the slots' watching bits): a source calling Done twice can make it exit while another source is still watching, whose later reports are never stacked")
		}
	}
	if n == 0 {
		c.bad(rule, relName(m), m.Pos(), "the monitor has no data-dependent exit (it could never stop when all watchers are done)")
	}
}

func selectIndexOf(v ssa.Value) (*ssa.Select, bool) {
	if b, ok := v.(*ssa.BinOp); ok {
		if ex, ok := b.X.(*ssa.Extract); ok && ex.Index == 0 {
			if s, ok := ex.Tuple.(*ssa.Select); ok {
				return s, true
			}
		}
	}
	return nil, false
}

// checkWatchArgsPerSource: every watching source is handed its own WatchArgs value, allocated in that source's
// iteration of Config's loop and naming that very source: reports are attributed to the slot of the source they
// came from. A shared value (hoisted out of the loop) attributes every report to the last watcher.
func (k *core) checkWatchArgsPerSource(rule string) {
	c := k.c
	f := k.config
	n := 0
	for _, i := range allInstrs(f) {
		call, ok := i.(*ssa.Call)
		if !ok || calleeFullName(call) != "("+modPath+".Watcher).Watch" {
			continue
		}
		n++
		args := call.Call.Args
		mi, ok := args[len(args)-1].(*ssa.MakeInterface)
		var al *ssa.Alloc
		if ok {
			al, _ = mi.X.(*ssa.Alloc)
		}
		okA := al != nil && inLoop(al) && litTypeName(al) == ".watchArgs"
		okS := false
		if okA {
			if sv := litField(al, "s"); sv != nil {
				// the source stored is the one whose Watch is invoked (possibly through the Watcher assertion)
				recv := call.Call.Value
				okS = recvIs(recv, func(x ssa.Value) bool { return x == sv || sameValue(x, sv) }) || recvIs(sv, func(x ssa.Value) bool { return x == recv })
				if !okS {
					// both derive from the same range element
					okS = sharesRangeElem(recv, sv)
				}
			}
		}
		c.check(okA && okS, rule, relName(f)+"#watch-args", call.Pos(), "the WatchArgs handed to a source's Watch is allocated in that iteration and names that source", "the WatchArgs value handed to Watch is shared between sources (allocated outside the loop) or does not name the source being watched: a report is applied to another source's slot and evicts that layer's value")
	}
	if n == 0 {
		// ... or through a helper called inside Config's source loop that allocates the WatchArgs itself (fresh per
		// call) from parameters: the receiver of Watch and the source named in the WatchArgs must then be, at
		// Config's call site, the source of that iteration
		for _, i := range allInstrs(f) {
			site, ok := i.(*ssa.Call)
			if !ok {
				continue
			}
			h := staticCallee(site)
			if h == nil || len(h.Blocks) == 0 || k.w.pkgRelOfFn(h) != "" {
				continue
			}
			for _, j := range allInstrs(h) {
				call, ok := j.(*ssa.Call)
				if !ok || calleeFullName(call) != "("+modPath+".Watcher).Watch" {
					continue
				}
				n++
				args := call.Call.Args
				var al *ssa.Alloc
				if mi, ok := args[len(args)-1].(*ssa.MakeInterface); ok {
					al, _ = mi.X.(*ssa.Alloc)
				}
				okA := al != nil && al.Parent() == h && !inLoop(al) && litTypeName(al) == ".watchArgs" && inLoop(site)
				okS := false
				if okA {
					up := func(v ssa.Value) ssa.Value {
						if p, ok := v.(*ssa.Parameter); ok {
							for pi, hp := range h.Params {
								if hp == p && pi < len(site.Call.Args) {
									return site.Call.Args[pi]
								}
							}
						}
						return v
					}
					sv, recv := litField(al, "s"), call.Call.Value
					if sv != nil {
						a, b := up(stripConv(sv)), up(stripConv(recv))
						okS = a == b || sameValue(a, b) || sharesRangeElem(a, b)
					}
				}
				c.check(okA && okS, rule, relName(f)+"#watch-args", call.Pos(), "the helper that starts a watcher allocates its WatchArgs per call and names the source of Config's iteration", "the WatchArgs value handed to Watch is shared between sources or does not name the source being watched: a report is applied to another source's slot and evicts that layer's value")
			}
		}
	}
	if n == 0 {
		c.bad(rule, relName(f), f.Pos(), "Config never calls Watcher.Watch")
	}
}

// sharesRangeElem: a and b both derive, through interface conversions and assertions, from one load of a range element.
func sharesRangeElem(a, b ssa.Value) bool {
	root := func(v ssa.Value) ssa.Value {
		for i := 0; i < 8; i++ {
			switch x := v.(type) {
			case *ssa.MakeInterface:
				v = x.X
			case *ssa.ChangeInterface:
				v = x.X
			case *ssa.TypeAssert:
				v = x.X
			case *ssa.Extract:
				if ta, ok := x.Tuple.(*ssa.TypeAssert); ok {
					v = ta.X
				} else {
					return v
				}
			default:
				return v
			}
		}
		return v
	}
	ra, rb := root(a), root(b)
	return ra == rb || sameValue(ra, rb)
}

// ---- install frame ------------------------------------------------------------------------------------
//
// The monitor reacts to a value update by calling the storing function and announcing the result. When that
// arm of the monitor is folded into a helper method (one call site in the monitor, parameters forwarded), the
// helper is the *install frame*: rules about the call of the storing function and the event built from its
// result look at the frame, and a frame parameter stands for the monitor's argument at the one call site.

type instFrame struct {
	fn   *ssa.Function
	site ssa.CallInstruction          // the call in the monitor (nil when the monitor is the frame)
	up   map[*ssa.Parameter]ssa.Value // frame parameter -> the monitor's argument
}

func (k *core) frame() *instFrame {
	if k.instFrameCache != nil {
		return k.instFrameCache
	}
	fr := &instFrame{fn: k.monitor, up: map[*ssa.Parameter]ssa.Value{}}
	k.instFrameCache = fr
	direct := false
	for _, sf := range k.storeFns {
		if len(callsToFn(k.monitor, sf)) > 0 {
			direct = true
		}
	}
	if direct {
		return fr
	}
	// a helper that calls the storing function and is called exactly once, from the monitor
	for _, f := range k.w.funcsIn("") {
		if f == k.monitor || f == k.config {
			continue
		}
		calls := false
		for _, sf := range k.storeFns {
			if f != sf && len(callsToFn(f, sf)) > 0 {
				calls = true
			}
		}
		if !calls {
			continue
		}
		sites := callsToFn(k.monitor, f)
		if len(sites) != 1 || len(k.cg.in[f]) != 1 {
			continue
		}
		fr.fn, fr.site = f, sites[0]
		for pi, p := range f.Params {
			if pi < len(sites[0].Common().Args) {
				fr.up[p] = sites[0].Common().Args[pi]
			}
		}
		return fr
	}
	return fr
}

// toMonitor maps a value of the install frame to the monitor's value it stands for.
func (fr *instFrame) toMonitor(v ssa.Value) ssa.Value {
	if p, ok := v.(*ssa.Parameter); ok {
		if a, ok := fr.up[p]; ok {
			return a
		}
	}
	return v
}

// ---- callback-loop helpers ------------------------------------------------------------------------------
//
// The callback loop may delegate the delivery to the registered callbacks to a helper (one call site in the
// loop, no other caller). Handler calls inside such a helper count as calls made by the loop, in the arm of the
// call site, with the helper's parameters standing for the loop's arguments.

type cbHelper struct {
	fn   *ssa.Function
	site *ssa.Call
	up   map[*ssa.Parameter]ssa.Value
}

func (k *core) cbHelpers() []*cbHelper {
	if k.cbHelpersDone {
		return k.cbHelpersCache
	}
	k.cbHelpersDone = true
	for _, f := range k.w.funcsIn("") {
		if f == k.cbLoop || f == k.monitor || len(f.Blocks) == 0 {
			continue
		}
		has := false
		for _, i := range allInstrs(f) {
			if ci, ok := i.(ssa.CallInstruction); ok && isHandlerCall(ci) {
				has = true
			}
		}
		if !has {
			continue
		}
		sites := callsToFn(k.cbLoop, f)
		if len(sites) != 1 || len(k.cg.in[f]) != 1 {
			continue
		}
		call, ok := sites[0].(*ssa.Call)
		if !ok {
			continue // started with go / defer: not a synchronous helper
		}
		h := &cbHelper{fn: f, site: call, up: map[*ssa.Parameter]ssa.Value{}}
		for pi, p := range f.Params {
			if pi < len(call.Call.Args) {
				h.up[p] = call.Call.Args[pi]
			}
		}
		k.cbHelpersCache = append(k.cbHelpersCache, h)
	}
	return k.cbHelpersCache
}

func (k *core) isCbHelper(f *ssa.Function) *cbHelper {
	for _, h := range k.cbHelpers() {
		if h.fn == origin(f) || h.fn == f {
			return h
		}
	}
	return nil
}

// cbUp maps a helper's parameter to the callback loop's argument.
func (k *core) cbUp(v ssa.Value) ssa.Value {
	if p, ok := v.(*ssa.Parameter); ok {
		for _, h := range k.cbHelpers() {
			if a, ok := h.up[p]; ok {
				return a
			}
		}
	}
	return v
}

// isBoolLoopPhi: a boolean phi at a loop header (a loop-carried flag).
func isBoolLoopPhi(ph *ssa.Phi) bool {
	if b, ok := ph.Type().Underlying().(*types.Basic); !ok || b.Kind() != types.Bool {
		return false
	}
	for _, p := range ph.Block().Preds {
		if ph.Block().Dominates(p) {
			return true
		}
	}
	return false
}

// actualsOf: the arguments passed for parameter p at every call site of its function (nil when the function's
// value escapes or it has no visible call site).
func (k *core) actualsOf(p *ssa.Parameter) []struct {
	Arg  ssa.Value
	Site ssa.CallInstruction
} {
	f := origin(p.Parent())
	pi := -1
	for i, fp := range p.Parent().Params {
		if fp == p {
			pi = i
		}
	}
	if pi < 0 || k.cg.escapes[f] {
		return nil
	}
	var out []struct {
		Arg  ssa.Value
		Site ssa.CallInstruction
	}
	for _, e := range k.cg.in[f] {
		if e.Site == nil || e.Kind == "closure" || pi >= len(e.Site.Common().Args) {
			return nil
		}
		out = append(out, struct {
			Arg  ssa.Value
			Site ssa.CallInstruction
		}{e.Site.Common().Args[pi], e.Site})
	}
	return out
}

// isCurrentConfig: v is the installed config as read on the monitor's side: View(), the config half of
// ViewVersion(), or a parameter that is that at every call site (the monitor is the only writer, so what it read
// before calling the storing function is still current until that function stores).
func (k *core) isCurrentConfig(v ssa.Value, depth int) bool {
	v = stripConv(v)
	if isCallToFn(v, k.view) {
		return true
	}
	if k.vvCall(v, 0) != nil {
		return true
	}
	if p, ok := v.(*ssa.Parameter); ok && depth < 2 {
		acts := k.actualsOf(p)
		if len(acts) == 0 {
			return false
		}
		for _, a := range acts {
			if !k.isCurrentConfig(a.Arg, depth+1) {
				return false
			}
		}
		return true
	}
	return false
}

// inlineWatchScan: the scan of the watching bits written in the monitor itself (a scanning helper folded into it, or
// never factored out). cond is the exit condition; it must be the outcome of a loop inside the monitor's event loop
// that reads the watching bits, in one of two shapes: (A) a join of constants behind the loop, where every early exit
// of the scanning loop arrives with "true" (someone is still watching), or (B) a flag accumulated over the whole loop
// (the loop has no early exit).
func inlineWatchScan(m *ssa.Function, hdr *ssa.BasicBlock, cond ssa.Value, fWatching *types.Var) bool {
	readsIn := func(h *ssa.BasicBlock) bool {
		for _, b := range m.Blocks {
			if b != h && !inLoopBody(h, b) {
				continue
			}
			for _, bi := range b.Instrs {
				if fl, ok := bi.(*ssa.Field); ok && sameField(fieldVar(fl.X.Type(), fl.Field), fWatching) {
					return true
				}
				if fa, ok := bi.(*ssa.FieldAddr); ok && sameField(fieldVar(fa.X.Type(), fa.Field), fWatching) {
					for _, rr := range *fa.Referrers() {
						if u, ok := rr.(*ssa.UnOp); ok && u.Op == token.MUL {
							return true
						}
					}
				}
			}
		}
		return false
	}
	var scans []*ssa.BasicBlock
	for _, h := range loopHeaders(m) {
		if h != hdr && hdr != nil && hdr.Dominates(h) && readsIn(h) {
			scans = append(scans, h)
		}
	}
	if len(scans) == 0 {
		return false
	}
	for {
		u, ok := cond.(*ssa.UnOp)
		if !ok || u.Op != token.NOT {
			break
		}
		cond = u.X
	}
	ph, ok := cond.(*ssa.Phi)
	if !ok {
		return false
	}
	for _, h := range scans {
		if ph.Block() == h {
			// (B) accumulated over the complete loop
			return len(earlyLoopExits(m, h, false)) == 0
		}
	}
	// (A)
	originOf := func(p *ssa.BasicBlock, h *ssa.BasicBlock) *ssa.BasicBlock {
		for hops := 0; hops < 5; hops++ {
			if p == h || inLoopBody(h, p) {
				return p
			}
			if len(p.Preds) != 1 {
				return nil
			}
			p = p.Preds[0]
		}
		return nil
	}
	for _, h := range scans {
		early, fromLoop, good := 0, 0, true
		for pi, p := range ph.Block().Preds {
			o := originOf(p, h)
			if o == nil {
				continue
			}
			fromLoop++
			if o != h {
				early++
				if cst, ok := ph.Edges[pi].(*ssa.Const); !ok || cst.Value == nil || cst.Value.ExactString() != "true" {
					good = false
				}
			}
		}
		if fromLoop == 0 {
			continue
		}
		// every early exit of the scanning loop is one of those edges
		if len(earlyLoopExits(m, h, false)) != early {
			good = false
		}
		return good
	}
	return false
}

func isLoopHeader(b *ssa.BasicBlock) bool {
	for _, p := range b.Preds {
		if b.Dominates(p) {
			return true
		}
	}
	return false
}

// checkEnableHelperOnlyWhileSkipping (shared by C04 and C09): the monitor calls the enable helper - whose negated
// result becomes the skip flag - only while the flag is true. Called with verification already on, a false answer
// (the installed config does not verify right now) would switch verification of all later updates off again.
func (k *core) checkEnableHelperOnlyWhileSkipping(rule string) {
	c := k.c
	m := k.monitor
	args, origins := k.skipFlagOrigins()
	var helper *ssa.Function
	for _, o := range origins {
		if o.Kind == "not-call" {
			helper = o.Fn
		}
	}
	if helper == nil {
		return
	}
	isSkip := func(v ssa.Value) bool {
		for _, a := range args {
			if v == a {
				return true
			}
		}
		return false
	}
	for _, ci := range callsToFn(m, helper) {
		okg := false
		for _, ec := range condsDominating(ci.Block()) {
			if isSkip(ec.Cond) && ec.Val {
				okg = true
			}
		}
		c.check(okg, rule, relName(m)+"#helper-call", ci.Pos(), "the enable helper is only called while skipVerify is true", "the enable helper is called without skipVerify being known true: its (negated) answer is assigned to the flag, so a repeated enable request can switch verification of later updates off again")
	}
}
