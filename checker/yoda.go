package main

import (
	"bytes"
	"go/ast"
	"go/format"
	"go/token"
	"go/types"
)

// Constant-first comparisons.
//
// `reflect.Struct != t.Kind()`, `"" == s`, `nil != err`, `0 < n`: the rules read comparisons with the constant on the
// right. Before they run, a comparison whose left operand is a constant (or nil) and whose right operand is not is
// mirrored (`c < x` becomes `x > c`); both operands of such a comparison are evaluated either way and a constant has
// no effect, so nothing else changes.
func mirrorConstantFirst(fset *token.FileSet, info *types.Info, file *ast.File) ([]byte, int) {
	isConst := func(e ast.Expr) bool {
		if tv, ok := info.Types[e]; ok && (tv.Value != nil || tv.IsNil()) {
			return true
		}
		return false
	}
	mirror := map[token.Token]token.Token{token.EQL: token.EQL, token.NEQ: token.NEQ, token.LSS: token.GTR, token.GTR: token.LSS, token.LEQ: token.GEQ, token.GEQ: token.LEQ}
	n := 0
	ast.Inspect(file, func(nd ast.Node) bool {
		b, ok := nd.(*ast.BinaryExpr)
		if !ok {
			return true
		}
		op, isCmp := mirror[b.Op]
		if !isCmp || !isConst(b.X) || isConst(b.Y) {
			return true
		}
		b.X, b.Y, b.Op = b.Y, b.X, op
		n++
		return true
	})
	if n == 0 {
		return nil, 0
	}
	var buf bytes.Buffer
	if err := format.Node(&buf, fset, file); err != nil {
		return nil, 0
	}
	return buf.Bytes(), n
}
