package main

import (
	"go/token"
	"strings"

	"golang.org/x/tools/go/ssa"
)

// Rules added after round 6 for the recursive halves of the Transformer (maybeRecursivelyMangle /
// maybeRecursivelyUnmangle) and for reflect element access in the transform package.

// c10RecursionVisitsEveryField: the loops of the two recursive helpers end only by exhaustion or by an error return.
// A `break` that used to be a `continue` (a nil pointer or nil slice among several output fields of one input field)
// leaves the remaining output fields of that field un-translated.
func c10RecursionVisitsEveryField(c *Ctx, rule string) {
	w := c.W
	n := 0
	for _, fname := range []string{"Transformer.maybeRecursivelyMangle", "Transformer.maybeRecursivelyUnmangle"} {
		f := w.fn("transform", fname)
		if !c.need(f != nil, "transform."+fname) {
			continue
		}
		c.analysed(relName(f))
		for li, h := range loopHeaders(f) {
			n++
			ex := earlyLoopExits(f, h, true)
			pos := f.Pos()
			if len(ex) > 0 {
				for _, i := range ex[0].Instrs {
					if i.Pos().IsValid() {
						pos = i.Pos()
					}
				}
			}
			c.check(len(ex) == 0, rule, relName(f)+"#loop#"+itoa(li+1), pos, "the loop visits every field / element (no break, no non-error return)",
				"a loop of the recursive translation can stop before all fields (elements) were handled: the output fields after the one that stopped it keep their mangled nested type, and reverse translation fails with 'incompatible types' or drops their values")
		}
	}
	if n == 0 {
		c.bad(rule, "transform", 0, "no loop found in the recursive halves of the Transformer")
	}
}

// c16IndexWithinLength: no index that runs up to a *capacity* is used to index a reflect.Value or a slice: elements
// between length and capacity do not exist (reflect panics with "slice index out of range").
func c16IndexWithinLength(c *Ctx, rule string) {
	w := c.W
	n := 0
	isCap := func(v ssa.Value) bool {
		call, ok := v.(*ssa.Call)
		if !ok {
			return false
		}
		if bi, ok := call.Call.Value.(*ssa.Builtin); ok && bi.Name() == "cap" {
			return true
		}
		return calleeFullName(call) == "(reflect.Value).Cap"
	}
	for _, rel := range []string{"transform", "parse", ""} {
		for _, f := range w.funcsIn(rel) {
			for _, i := range allInstrs(f) {
				var idx ssa.Value
				switch x := i.(type) {
				case *ssa.Call:
					if calleeFullName(x) == "(reflect.Value).Index" {
						idx = x.Call.Args[1]
					}
				case *ssa.IndexAddr:
					idx = x.Index
				case *ssa.Index:
					idx = x.Index
				}
				if idx == nil {
					continue
				}
				ph, ok := idx.(*ssa.Phi)
				if !ok {
					if b, isAdd := idx.(*ssa.BinOp); isAdd && b.Op == token.ADD {
						ph, ok = b.X.(*ssa.Phi) // range index: phi + 1
						if ok {
							idx = b
						}
					}
				}
				if !ok {
					continue
				}
				bound := headerUpperBound(ph.Block(), idx)
				if bound == nil {
					continue
				}
				n++
				okB := !isCap(bound) && !derivesAny(bound, isCap, nil)
				if !okB {
					c.analysed(relName(f))
				}
				if okB {
					continue // reported in bulk below
				}
				c.bad(rule, relName(f)+"#"+canon(idx), i.Pos(), "the index %s runs up to a capacity (%s): elements between the length and the capacity do not exist, indexing them panics", canon(idx), canon(bound))
			}
		}
	}
	c.check(n > 0, rule, "bounded-indices", 0, "no bounded loop index used for element access runs up to a capacity ("+itoa(n)+" index loops looked at)", "no bounded index loop found")
}

// c10TypeElemOfKnownKind: in maybeRecursivelyUnmangle reflect.Type.Elem() (which panics for kinds without an element
// type) is evaluated, on paths that can still succeed, only on the type whose kind selected the arm - the output
// field's type as the mangler returned it, or the type of the value at hand. The mangler's *input* field type
// (fieldState.in.Type) has an unrelated kind (a hoisted field of an embedded struct); it may only be used for the text
// of an error.
func c10TypeElemOfKnownKind(c *Ctx, rule string) {
	f := c.W.fn("transform", "Transformer.maybeRecursivelyUnmangle")
	if !c.need(f != nil, "transform.Transformer.maybeRecursivelyUnmangle") {
		return
	}
	c.analysed(relName(f))
	n := 0
	for _, i := range allInstrs(f) {
		call, ok := i.(*ssa.Call)
		if !ok || calleeFullName(call) != "(reflect.Type).Elem" {
			continue
		}
		n++
		recv := call.Call.Value
		isIn := false
		derivesAny(recv, func(x ssa.Value) bool {
			if b, ok := loadOfTypeField(x, "transform.transformMappingElement", "in"); ok && b != nil {
				isIn = true
			}
			if strings.Contains(canon(x), ".in.") || strings.HasSuffix(canon(x), ".in") {
				isIn = true
			}
			return false
		}, nil)
		if !isIn {
			c.ok(rule, relName(f)+"#"+canon(recv), call.Pos(), "Elem() of the type whose kind selected the arm")
			continue
		}
		// only on paths that end in an error
		onlyErr := true
		for _, r := range returnsReachableFrom(nil, call.Block()) {
			rv := retVals(r)
			if len(rv) == 0 || isNilConst(rv[len(rv)-1]) {
				onlyErr = false
			}
		}
		c.check(onlyErr, rule, relName(f)+"#"+canon(recv), call.Pos(), "Elem() of the mangler's input field type is evaluated only while building an error",
			"reflect.Type.Elem() is evaluated on the mangler's input field type on a path that can still succeed: that type's kind is unrelated to the arm (for a field hoisted out of an embedded struct it is a struct) and Elem() panics with 'Elem of invalid type'")
	}
	if n == 0 {
		c.okTrivial(rule, relName(f), f.Pos(), "no reflect.Type.Elem() call in the recursive reverse translation")
	}
}
