package main

import (
	"go/token"
	"go/types"
	"strings"

	"golang.org/x/tools/go/ssa"
)

// Rules on the deep copier shared by C02 (isolation) and C03 (fresh, faithful
// copies of shared/cyclic graphs).

// c02SourceCopied: the overlay operand of every merge in compose is a deep copy
// of the slot value made in that iteration, on every path.
func c02SourceCopied(c *Ctx, k *core, cp *copier, rule string) {
	w := c.W
	merge := w.fn("", "overlayer.overlayStruct")
	for _, ci := range callsToFn(k.compose, merge) {
		args := ci.Common().Args
		ov := args[len(args)-1]
		call, ok := ov.(*ssa.Call)
		okc := false
		var sc *ssa.Function
		if ok {
			sc = staticCallee(call)
		}
		if sc != nil && (sc == origin(cp.valM) || sc == origin(cp.valF) || sc == origin(cp.real)) {
			// made in this iteration, from the slot
			okc = call.Block() == ci.Block() || inLoop(call)
			fSlotVal := w.field("", "sourceValue", "value")
			a := call.Call.Args[len(call.Call.Args)-1]
			okc = okc && derivesAll(a, func(x ssa.Value) bool { _, ok := isFieldLoad(x, fSlotVal); return ok }, &flowOpts{through: map[string]bool{"(reflect.Value).Elem": true, "reflect.Indirect": true}})
		}
		c.check(okc, rule, relName(k.compose), ci.Pos(), "the overlay operand is a fresh deep copy of the slot value",
			"the overlay operand is not (on every path) a per-stack deep copy of the slot value: versions would alias the source's value and each other")
	}
}

func c02CopierFreshAll(c *Ctx, cp *copier) {
	for _, h := range []*ssa.Function{cp.hPtr, cp.hMap, cp.hSlice} {
		c02Fresh(c, h)
	}
	c02FreshIface(c, cp.hIface)
}

var refBearingKinds = map[int64]bool{kPtr: true, kMap: true, kSlice: true, kStruct: true, kInterface: true, kArray: true}

// c02ElementsDescend: the array handler (which also copies slice backing
// arrays) descends into every element: a counted loop z = 0 .. in.Len() whose
// body calls the dispatcher on (in.Index(z), out.Index(z)) and has no other
// exit; a return that does not pass through the loop is only allowed under a
// test that restricts the element kind to kinds that cannot hold references.
// The map handler's entry loop likewise has no exit other than exhaustion.
func c02ElementsDescend(c *Ctx, cp *copier, rule string) {
	h := cp.hArray
	name := relName(h)
	in, out := h.Params[1], h.Params[2]
	// the descent
	var descent *ssa.Call
	for _, ci := range callsToFn(h, cp.dispatch) {
		call := ci.(*ssa.Call)
		a, b := call.Call.Args[1], call.Call.Args[2]
		ia, ok1 := a.(*ssa.Call)
		ib, ok2 := b.(*ssa.Call)
		if ok1 && ok2 && calleeFullName(ia) == "(reflect.Value).Index" && calleeFullName(ib) == "(reflect.Value).Index" &&
			ia.Call.Args[0] == ssa.Value(in) && ib.Call.Args[0] == ssa.Value(out) && sameValue(ia.Call.Args[1], ib.Call.Args[1]) {
			descent = call
		}
	}
	if descent == nil {
		c.bad(rule, name+"#loop", h.Pos(), "the array handler does not descend into (in.Index(z), out.Index(z))")
		return
	}
	// loop header: a block dominating the descent with a back edge, comparing the counter with in.Len()
	var hdr *ssa.BasicBlock
	for b := descent.Block(); b != nil; b = b.Idom() {
		for _, p := range b.Preds {
			if b.Dominates(p) && inLoopBody(b, descent.Block()) {
				hdr = b
			}
		}
		if hdr != nil {
			break
		}
	}
	okLoop := hdr != nil
	why := "no loop around the element descent"
	if hdr != nil {
		idx := descent.Call.Args[1].(*ssa.Call).Call.Args[1]
		okLoop = false
		why = "the loop is not `for z := 0; z < in.Len(); z++`"
		if isForwardRangeIndex(idx) {
			if l, ok := headerUpperBound(hdr, idx).(*ssa.Call); ok && calleeFullName(l) == "(reflect.Value).Len" && l.Call.Args[0] == ssa.Value(in) {
				okLoop = true
			}
		}
		// no exit from the body other than through the header
		if okLoop {
			for _, b := range h.Blocks {
				if b == hdr || !inLoopBody(hdr, b) {
					continue
				}
				for _, s := range b.Succs {
					if s != hdr && !inLoopBody(hdr, s) {
						okLoop = false
						why = "the element loop can be left early (break / return inside the body)"
					}
				}
				if _, isRet := b.Instrs[len(b.Instrs)-1].(*ssa.Return); isRet {
					okLoop = false
					why = "the element loop returns from inside the body"
				}
			}
		}
		// the descent is unconditional inside the body
		if okLoop {
			for _, s := range hdr.Succs {
				if inLoopBody(hdr, s) && s != hdr && !(s == descent.Block() || s.Dominates(descent.Block())) {
					okLoop = false
				}
			}
			if len(condsDominating(descent.Block()))-len(condsDominating(hdr)) != 1 || !descent.Block().Dominates(latchOf(hdr)) {
				okLoop = false
				why = "the element descent is conditional inside the loop body"
			}
		}
	}
	c.check(okLoop, rule, name+"#loop", descent.Pos(), "every element 0 <= z < in.Len() is handed to the dispatcher as (in.Index(z), out.Index(z)); the loop has no other exit", why)

	// returns that bypass the loop
	if hdr != nil {
		pb := &predBuilder{}
		for _, r := range returnsOf(h) {
			if hdr.Dominates(r.Block()) {
				continue
			}
			g := pb.pathCondAvoid(h.Blocks[0], r.Block(), map[*ssa.BasicBlock]bool{hdr: true})
			fb, fi := map[string]bool{}, map[string]bool{}
			atomsOf(g, fb, fi)
			// the element-kind atoms: any Kind() of (Type(in)).Elem()
			var kindAtoms []string
			doms := map[string][]int64{}
			for a := range fi {
				if strings.Contains(a, "Kind(") && strings.Contains(a, "Elem(") && strings.Contains(a, "Type("+in.Name()+")") {
					kindAtoms = append(kindAtoms, a)
					doms[a] = allKinds
				}
			}
			_, counter := forAll(g, doms, func(e env, fv bool) bool {
				if !fv {
					return true
				}
				for _, a := range kindAtoms {
					if !refBearingKinds[e.I[a]] {
						return true
					}
				}
				return false
			})
			c.check(counter == "", rule, name+"#bypass", r.Pos(), "a return that skips the element loop is only reachable for element kinds that cannot hold references",
				"the array handler can return without visiting the elements although the element kind can hold references (they stay aliased to the input): "+counter)
		}
	}

	// the slice handler: a return that skips the hand-over to the array handler (which visits the elements)
	// is only reachable for a nil input or for element kinds that cannot hold references
	sl := cp.hSlice
	var handOver *ssa.Call
	for _, ci := range callsToFn(sl, cp.hArray) {
		handOver = ci.(*ssa.Call)
	}
	if handOver == nil {
		for _, ci := range callsToFn(sl, cp.dispatch) {
			handOver = ci.(*ssa.Call)
		}
	}
	if handOver == nil {
		c.bad(rule, relName(sl)+"#elements", sl.Pos(), "the slice handler never hands its elements to the array handler / dispatcher")
	} else {
		sin := sl.Params[1]
		nilIn := "(reflect.Value).IsNil(" + sin.Name() + ")"
		pb := &predBuilder{}
		for _, r := range returnsOf(sl) {
			if handOver.Block() == r.Block() || handOver.Block().Dominates(r.Block()) {
				continue
			}
			g := pb.pathCondAvoid(sl.Blocks[0], r.Block(), map[*ssa.BasicBlock]bool{handOver.Block(): true})
			fb, fi := map[string]bool{}, map[string]bool{}
			atomsOf(g, fb, fi)
			var kindAtoms []string
			doms := map[string][]int64{}
			for a := range fi {
				if strings.Contains(a, "Kind(") && strings.Contains(a, "Elem(") && strings.Contains(a, "Type("+sin.Name()+")") {
					kindAtoms = append(kindAtoms, a)
					doms[a] = allKinds
				}
			}
			_, counter := forAll(g, doms, func(e env, fv bool) bool {
				if !fv {
					return true
				}
				if fb[nilIn] && e.B[nilIn] {
					return true
				}
				for _, a := range kindAtoms {
					if !refBearingKinds[e.I[a]] {
						return true
					}
				}
				return false
			})
			c.check(counter == "", rule, relName(sl)+"#bypass", r.Pos(), "a return that skips the element visit is only reachable for a nil slice or element kinds that cannot hold references",
				"the slice handler can return without visiting the elements of a non-nil slice whose element kind can hold references (e.g. a bulk reflect.Copy that forgets arrays of pointers): they stay aliased to the input: "+counter)
		}
	}

	// the map handler inserts only deep-copied keys and values: both operands of SetMapIndex are temporaries that
	// were handed to the dispatcher as outputs earlier in the same iteration
	mh := cp.hMap
	nIns := 0
	for _, i := range allInstrs(mh) {
		ins, ok := i.(*ssa.Call)
		if !ok || calleeFullName(ins) != "(reflect.Value).SetMapIndex" {
			continue
		}
		nIns++
		for ai, what := range map[int]string{1: "key", 2: "value"} {
			operand := ins.Call.Args[ai]
			copied := false
			for _, ci := range callsToFn(mh, cp.dispatch) {
				dc := ci.(*ssa.Call)
				if dc.Call.Args[2] == operand && domI(dc, ins) && isFreshAlloc(operand) {
					copied = true
				}
			}
			c.check(copied, rule, relName(mh)+"#insert-"+what, ins.Pos(), "the "+what+" inserted into the new map is a fresh temporary filled by the dispatcher",
				"the map handler inserts a "+what+" that was not deep-copied (a pointer "+what+", or a struct "+what+" containing pointers, keeps pointing into the input)")
		}
	}
	if nIns == 0 {
		c.bad(rule, relName(mh)+"#insert", mh.Pos(), "the map handler never inserts into the new map")
	}

	// the map handler's entry loop: MapIter.Next loop without other exits
	m := cp.hMap
	for _, i := range allInstrs(m) {
		call, ok := i.(*ssa.Call)
		if !ok || calleeFullName(call) != "(*reflect.MapIter).Next" {
			continue
		}
		hb := call.Block()
		okM := true
		for _, b := range m.Blocks {
			if b == hb || !inLoopBody(hb, b) {
				continue
			}
			for _, s := range b.Succs {
				if s != hb && !inLoopBody(hb, s) {
					okM = false
				}
			}
			if _, isRet := b.Instrs[len(b.Instrs)-1].(*ssa.Return); isRet {
				okM = false
			}
		}
		c.check(okM, rule, relName(m)+"#entries", call.Pos(), "the entry loop of the map handler ends only when the iterator is exhausted", "the map handler can leave its entry loop early: later entries keep the values of the shallow copy")
	}
}

// c03OutSettable: descents from the interface handler for payload kinds whose
// handlers consult the memo only for a settable output (Ptr, Map) pass an
// addressable temporary reflect.New(T).Elem(); so does deepCopyValue.
func c03OutSettable(c *Ctx, cp *copier, rule string) {
	isNewElem := func(v ssa.Value) bool {
		call, ok := v.(*ssa.Call)
		if !ok || calleeFullName(call) != "(reflect.Value).Elem" {
			return false
		}
		n, ok := call.Call.Args[0].(*ssa.Call)
		return ok && calleeFullName(n) == "reflect.New"
	}
	h := cp.hIface
	n := 0
	for _, i := range allInstrs(h) {
		call, ok := i.(*ssa.Call)
		if !ok {
			continue
		}
		callee := staticCallee(call)
		if callee == nil || !cp.scc[callee] || len(call.Call.Args) != 3 {
			continue
		}
		_, kinds := kindsAtSwitch(call.Block())
		if kinds == nil {
			// not under the payload-kind switch: treat as all kinds
			kinds = map[int64]bool{kPtr: true, kMap: true}
		}
		memoKinds := kinds[kPtr] || kinds[kMap]
		if callee == cp.hPtr || callee == cp.hMap {
			memoKinds = true
		}
		if !memoKinds {
			continue
		}
		n++
		c.check(isNewElem(call.Call.Args[2]), rule, relName(h)+"#descent#"+itoa(n), call.Pos(), "Ptr/Map payloads are copied into reflect.New(T).Elem(): settable, so the handlers' memo hit applies",
			"a Ptr/Map payload of an interface value is copied into "+canon(call.Call.Args[2])+", which is not an addressable temporary (reflect.New(T).Elem()): the map/pointer handlers ignore their memo for unsettable outputs, so sharing is split and a map reachable from itself through an interface recurses forever")
	}
	if n == 0 {
		c.bad(rule, relName(h), h.Pos(), "no descent for Ptr/Map payloads found in the interface handler")
	}
	// the memo hit of the map handler may be conjoined only with CanSet(out): checked by map-descent-memo
	v := cp.valM
	for _, ci := range callsToFn(v, cp.dispatch) {
		call := ci.(*ssa.Call)
		c.check(isNewElem(call.Call.Args[2]), rule, relName(v), call.Pos(), "deepCopyValue copies into reflect.New(T).Elem()", "deepCopyValue copies into an output that is not reflect.New(T).Elem()")
	}
}

// latchOf returns a back-edge predecessor of loop header h.
func latchOf(h *ssa.BasicBlock) *ssa.BasicBlock {
	for _, p := range h.Preds {
		if h.Dominates(p) {
			return p
		}
	}
	return h
}

// ---- value-following recursion outside the copier (C03) -----------------------------------

// memoGuarded: call is dominated, in its function, by a comma-ok lookup in a
// map whose key derives from Pointer() of value v, and the lookup's hit edge
// does not reach the call.
func memoGuarded(call *ssa.Call, v ssa.Value) bool {
	f := call.Parent()
	for _, i := range allInstrs(f) {
		lk, ok := i.(*ssa.Lookup)
		if !ok || !lk.CommaOk {
			continue
		}
		keyOK := derivesAny(lk.Index, func(x ssa.Value) bool {
			cc, ok := x.(*ssa.Call)
			return ok && calleeFullName(cc) == "(reflect.Value).Pointer" && sameValue(cc.Call.Args[0], v)
		}, nil)
		if !keyOK {
			continue
		}
		var okV ssa.Value
		for _, r := range *lk.Referrers() {
			if ex, ok := r.(*ssa.Extract); ok && ex.Index == 1 {
				okV = ex
			}
		}
		if okV == nil {
			continue
		}
		// (1) the hit edge never reaches the call
		hitReaches := false
		for _, r := range *okV.Referrers() {
			iff, ok := r.(*ssa.If)
			if !ok {
				continue
			}
			hit := iff.Block().Succs[0]
			seen := map[*ssa.BasicBlock]bool{}
			work := []*ssa.BasicBlock{hit}
			for len(work) > 0 {
				b := work[len(work)-1]
				work = work[:len(work)-1]
				if seen[b] {
					continue
				}
				seen[b] = true
				if b == call.Block() {
					hitReaches = true
				}
				work = append(work, b.Succs...)
			}
		}
		if hitReaches {
			continue
		}
		// (2) the pointer is registered on the way to the call
		registered := false
		for _, j := range allInstrs(f) {
			if mu, ok := j.(*ssa.MapUpdate); ok && canon(mu.Map) == canon(lk.X) && (mu.Block() == lk.Block() || lk.Block().Dominates(mu.Block())) {
				registered = true
			}
		}
		if !registered {
			continue
		}
		// (3) a path to the call that bypasses the lookup exists only where v is not a pointer
		atom := "(reflect.Value).Kind(" + canon(v) + ")"
		g := (&predBuilder{}).pathCondAvoid(f.Blocks[0], call.Block(), map[*ssa.BasicBlock]bool{lk.Block(): true})
		if ks := kindsWhere(g, atom); !ks[kPtr] {
			return true
		}
	}
	return false
}

// c03ValueRecursion: the two places outside the copier that follow the
// *values* of a config graph through interface fields — Pointerify narrowing
// an interface-typed field to the concrete type of the default's value, and
// the overlay merging two interface-held pointees of the same type — are
// guarded by a visited set keyed on the pointer being followed, so defaults
// and source values that refer back to themselves through an interface
// terminate.
func c03ValueRecursion(c *Ctx, rule string) {
	w := c.W
	// (a) ptrify.pointerifyField: the self-call that passes the unwrapped interface value
	pf := w.fn("ptrify", "pointerifyField")
	if c.need(pf != nil, "ptrify.pointerifyField") {
		c.analysed(relName(pf))
		n := 0
		for _, ci := range callsToFn(pf, pf) {
			call := ci.(*ssa.Call)
			var tv ssa.Value
			for _, a := range call.Call.Args {
				if types.TypeString(a.Type(), nil) == "reflect.Value" {
					tv = a
				}
			}
			el, ok := tv.(*ssa.Call)
			if !ok || calleeFullName(el) != "(reflect.Value).Elem" {
				continue
			}
			n++
			// Ptr payloads only: a struct payload has no identity to come back to
			c.check(memoGuarded(call, el), rule, relName(pf)+"#iface-narrowing", call.Pos(), "the recursion into the default's interface payload is guarded by a visited set keyed on the payload pointer",
				"pointerifyField recurses into the value held by an interface-typed field of the defaults without a visited set: a default that refers back to itself through an interface (n.I = n) never terminates (stack overflow inside Config)")
		}
		if n == 0 {
			c.bad(rule, relName(pf), pf.Pos(), "no value-following self-call found in pointerifyField")
		}
	}
	// (b) overlayer.overlayInterface: the same-type merge of two interface-held pointees
	oi := w.fn("", "overlayer.overlayInterface")
	of := w.fn("", "overlayer.overlayField")
	if c.need(oi != nil && of != nil, "dials.overlayer.overlayInterface / overlayField") {
		c.analysed(relName(oi))
		base, ov := oi.Params[1], oi.Params[2]
		n := 0
		for _, ci := range callsToFn(oi, of) {
			call := ci.(*ssa.Call)
			if call.Call.Args[1] != ssa.Value(base) {
				continue // merges into a fresh value: nothing non-nil to come back to
			}
			el, ok := call.Call.Args[2].(*ssa.Call)
			if !ok || calleeFullName(el) != "(reflect.Value).Elem" || el.Call.Args[0] != ssa.Value(ov) {
				continue
			}
			// only the arm where the overlay is a pointer (its pointee has identity)
			_, ks := kindsAtSwitch(call.Block())
			if ks == nil || !ks[kPtr] {
				continue
			}
			n++
			c.check(memoGuarded(call, ov), rule, relName(oi)+"#same-type-merge", call.Pos(), "the merge of two interface-held pointees is guarded by a visited set keyed on the overlay pointer",
				"overlayInterface merges the pointee of an interface-held pointer into the base's pointee of the same type without a visited set: two layers whose values refer back to themselves through an interface recurse forever (stack overflow)")
		}
		if n == 0 {
			c.bad(rule, relName(oi), oi.Pos(), "no same-type pointer merge found in overlayInterface")
		}
	}
	// (c) the struct that reaches overlayField by value through an interface: Elem() of the overlay only under Kind()==Ptr when the base pointer is non-nil
	if of != nil {
		ovp := of.Params[2]
		merge := w.fn("", "overlayer.overlayStruct")
		n := 0
		for _, ci := range callsToFn(of, merge) {
			call := ci.(*ssa.Call)
			// the operand: overlay.Elem(), or a join of overlay.Elem() and the overlay itself (a "pointee if it is a
			// pointer" helper written out)
			var el *ssa.Call
			leaves := []ssa.Value{call.Call.Args[2]}
			if ph, isPhi := call.Call.Args[2].(*ssa.Phi); isPhi {
				leaves = ph.Edges
			}
			otherLeaf := false
			for _, lf := range leaves {
				if lc, ok := lf.(*ssa.Call); ok && calleeFullName(lc) == "(reflect.Value).Elem" && lc.Call.Args[0] == ssa.Value(ovp) {
					el = lc
				} else if lf != ssa.Value(ovp) {
					otherLeaf = true
				}
			}
			if el == nil || otherLeaf {
				continue
			}
			// nil-base arm: reached only with pointerified (pointer) overlays — the by-value struct comes from
			// overlayInterface's struct arm, which allocates and deep-copies a non-nil base first
			nilBase, kindPtr := false, false
			domConds := condsDominating(call.Block())
			if el.Block() != call.Block() {
				domConds = append(domConds, condsDominating(el.Block())...)
			}
			for _, ec := range domConds {
				if cc, ok := ec.Cond.(*ssa.Call); ok && ec.Val && calleeFullName(cc) == "(reflect.Value).IsNil" && cc.Call.Args[0] == ssa.Value(of.Params[1]) {
					nilBase = true
				}
				if b, ok := ec.Cond.(*ssa.BinOp); ok {
					if kc, ok := b.X.(*ssa.Call); ok && calleeFullName(kc) == "(reflect.Value).Kind" && kc.Call.Args[0] == ssa.Value(ovp) {
						if k, ok := constInt(b.Y); ok && k == kPtr && (b.Op == token.EQL && ec.Val || b.Op == token.NEQ && !ec.Val) {
							kindPtr = true
						}
					}
				}
			}
			n++
			if nilBase {
				c.okTrivial(rule, relName(of)+"#elem#"+itoa(n), call.Pos(), "nil-base arm: only pointerified (pointer) overlays arrive here (reviewed: the by-value struct from overlayInterface is merged into an allocated, non-nil base)")
				continue
			}
			c.check(kindPtr, rule, relName(of)+"#elem#"+itoa(n), call.Pos(), "overlay.Elem() is taken only under overlay.Kind() == Ptr",
				"overlayField dereferences the overlay although it can be a struct that arrived by value through an interface-typed field (two layers setting an interface field to the same pointer-to-struct type): reflect panics with 'Elem on struct Value'")
		}
		if n == 0 {
			c.bad(rule, relName(of), of.Pos(), "no pointee merge found in overlayField")
		}
	}
}

// c02CopierStateFresh: the memo tables live exactly as long as one copy: the constructors of the copier and of
// the overlayer return a struct allocated in that call whose map fields are made there (a recycled or shared
// instance carries pointer/map identities of an earlier value into the next copy: a map whose address is
// seen again - re-reported by a source, or reused by the allocator - would be answered from the stale memo).
func c02CopierStateFresh(c *Ctx, cp *copier, rule string) {
	w := c.W
	for _, f := range []*ssa.Function{cp.newC, w.fn("", "newOverlayer")} {
		if f == nil {
			c.undecided(rule, "constructors", 0, "newDeepCopier / newOverlayer not found")
			continue
		}
		c.analysed(relName(f))
		okAll := true
		why := ""
		nRet := 0
		for _, r := range returnsOf(f) {
			nRet++
			al, ok := retVals(r)[0].(*ssa.Alloc)
			if !ok || !al.Heap {
				okAll = false
				why = "the result is " + canon(retVals(r)[0]) + ", not a struct allocated by this call"
				continue
			}
			st, ok := al.Type().(*types.Pointer).Elem().Underlying().(*types.Struct)
			if !ok {
				okAll = false
				continue
			}
			for i := 0; i < st.NumFields(); i++ {
				fld := st.Field(i)
				v := litField(al, vname(fld))
				switch fld.Type().Underlying().(type) {
				case *types.Map:
					if _, isMake := v.(*ssa.MakeMap); !isMake {
						okAll = false
						why = "map field " + fld.Name() + " is not made in the constructor"
					}
				case *types.Pointer:
					if namedTypeName(fld.Type()) == ".deepCopier" {
						call, isCall := v.(*ssa.Call)
						if !isCall || staticCallee(call) != origin(cp.newC) {
							okAll = false
							why = "the copier field " + fld.Name() + " is not a new copier"
						}
					}
				}
			}
		}
		c.check(okAll && nRet > 0, rule, relName(f), f.Pos(), "returns a struct allocated by this call with freshly made memo maps", "the constructor does not return a freshly allocated instance with fresh memo maps ("+why+"): memo state can survive from one copy / stack to the next")
	}
	c02CopierPerUse(c, cp, rule)
}

// c02CopierPerUse: wherever a copy is started from outside the copier - a deepCopier method called by a function
// that is not itself a method of deepCopier - the copier is one constructed for that use: the result of
// newDeepCopier() / the dc of a newOverlayer() made in the same function and, inside a loop, in the same iteration;
// for a parameter (or a receiver), at every call site. A copier kept across calls (a long-lived variable, a field,
// one made before a loop) carries its memo maps from one copy into the next.
func c02CopierPerUse(c *Ctx, cp *copier, rule string) {
	w := c.W
	cg := w.callGraph()
	newO := w.fn("", "newOverlayer")
	isCopierMethod := func(f *ssa.Function) bool {
		f = origin(f)
		return f.Signature.Recv() != nil && namedTypeName(f.Signature.Recv().Type()) == ".deepCopier"
	}
	type key struct {
		v    ssa.Value
		site ssa.Instruction
	}
	visiting := map[key]bool{}
	var fresh func(v ssa.Value, site ssa.Instruction, depth int) (bool, string)
	sameIteration := func(def ssa.Instruction, site ssa.Instruction) bool {
		if !inLoop(site) {
			return true
		}
		entry := loopBodyEntry(site.Block())
		return entry != nil && (entry == def.Block() || entry.Dominates(def.Block()))
	}
	fresh = func(v ssa.Value, site ssa.Instruction, depth int) (bool, string) {
		v = stripConv(v)
		k := key{v, site}
		if visiting[k] {
			return true, "" // a cycle of pass-through parameters: decided by the other call sites
		}
		if depth > 6 {
			return false, "the copier's origin is too far away to follow"
		}
		visiting[k] = true
		defer delete(visiting, k)
		switch x := v.(type) {
		case *ssa.Call:
			callee := staticCallee(x)
			if callee != nil && (origin(callee) == origin(cp.newC) || (newO != nil && origin(callee) == origin(newO))) {
				if x.Parent() == site.Parent() && sameIteration(x, site) {
					return true, ""
				}
				return false, "it is constructed once, before the loop that uses it: every use after the first starts with the memo maps of the earlier ones"
			}
			return false, "it is the result of " + calleeFullName(x)
		case *ssa.UnOp:
			if x.Op == token.MUL {
				if fa, ok := x.X.(*ssa.FieldAddr); ok && namedTypeName(fa.X.Type()) == ".overlayer" {
					return fresh(fa.X, site, depth+1)
				}
				if fa, ok := x.X.(*ssa.FieldAddr); ok {
					return false, "it is kept in the field " + fieldName(fa.X.Type(), fa.Field)
				}
				if _, ok := x.X.(*ssa.Global); ok {
					return false, "it is kept in a package variable"
				}
				// the copier taken by value through its pointer (value receivers): the copy shares the memo maps, so
				// it is as fresh as what the pointer refers to
				if pt, ok := x.X.Type().Underlying().(*types.Pointer); ok && namedTypeName(pt.Elem()) == ".deepCopier" {
					switch x.X.(type) {
					case *ssa.Call, *ssa.Phi, *ssa.Parameter, *ssa.UnOp:
						return fresh(x.X, site, depth+1)
					}
				}
			}
		case *ssa.Alloc:
			if x.Parent() == site.Parent() && sameIteration(x, site) {
				return true, ""
			}
			return false, "it is allocated once, before the loop that uses it"
		case *ssa.Parameter:
			f := x.Parent()
			pi := -1
			for i, p := range f.Params {
				if p == x {
					pi = i
				}
			}
			edges := cg.in[origin(f)]
			n := 0
			for _, e := range edges {
				if e.Site == nil || e.Kind == "closure" {
					continue
				}
				args := e.Site.Common().Args
				if pi >= len(args) {
					continue
				}
				n++
				if ok, why := fresh(args[pi], e.Site.(ssa.Instruction), depth+1); !ok {
					return false, why + " (passed by " + relName(e.From) + ")"
				}
			}
			if n == 0 || cg.escapes[origin(f)] {
				return false, "it is a parameter of a function whose callers cannot all be seen"
			}
			return true, ""
		case *ssa.Phi:
			for _, e := range x.Edges {
				if ok, why := fresh(e, site, depth+1); !ok {
					return false, why
				}
			}
			return true, ""
		}
		return false, "its origin is " + canon(v)
	}
	n := 0
	for _, f := range w.funcsIn("") {
		if isCopierMethod(f) || len(f.Blocks) == 0 {
			continue
		}
		for _, i := range allInstrs(f) {
			ci, ok := i.(*ssa.Call)
			if !ok {
				continue
			}
			callee := staticCallee(ci)
			if callee == nil || !isCopierMethod(callee) {
				continue
			}
			n++
			okF, why := fresh(ci.Call.Args[0], ci, 0)
			c.check(okF, rule, relName(f)+"#use-"+callee.Name(), ci.Pos(), "the copy starts on a copier constructed for this use",
				"a copy is started on a copier that was not constructed for this use: "+why+", so pointers and maps of an earlier input resolve to parts of an earlier output")
		}
	}
	if n == 0 {
		c.bad(rule, "copier#uses", 0, "no copy is ever started from outside the copier")
	}
}

// c03SamePointerInstalled: in the leaf overlay, a nil pointer field of the base whose pointee type equals the
// pointee type of the layer's (already deep-copied) pointer receives that very pointer. The copier memoised that
// pointer for every other reference to the same node, so allocating a twin here splits a shared node in two and
// opens cycles. Structural form: on the base.IsNil() branch, the path condition of `base.Set(overlay)` is implied
// by the type equality alone.
func c03SamePointerInstalled(c *Ctx, rule string) {
	leaf := c.W.fn("", "overlayer.overlayField")
	if !c.need(leaf != nil, "overlayer.overlayField") {
		return
	}
	base := ssa.Value(leaf.Params[len(leaf.Params)-2])
	ov := ssa.Value(leaf.Params[len(leaf.Params)-1])
	elemTypeOf := func(v ssa.Value) ssa.Value {
		el, ok := v.(*ssa.Call)
		if !ok || !el.Call.IsInvoke() || el.Call.Method.Name() != "Elem" {
			return nil
		}
		ty, ok := el.Call.Value.(*ssa.Call)
		if !ok || calleeFullName(ty) != "(reflect.Value).Type" {
			return nil
		}
		return ty.Call.Args[0]
	}
	pb := &predBuilder{name: func(v ssa.Value) string {
		if b, ok := v.(*ssa.BinOp); ok && b.Op == token.EQL {
			x, y := elemTypeOf(b.X), elemTypeOf(b.Y)
			if x == base && y == ov || x == ov && y == base {
				return "sameElemType"
			}
		}
		return ""
	}}
	n := 0
	for _, b := range leaf.Blocks {
		ifi, ok := b.Instrs[len(b.Instrs)-1].(*ssa.If)
		if !ok {
			continue
		}
		cc, ok := ifi.Cond.(*ssa.Call)
		if !ok || calleeFullName(cc) != "(reflect.Value).IsNil" || cc.Call.Args[0] != base {
			continue
		}
		nilSucc := b.Succs[0]
		if len(nilSucc.Preds) != 1 {
			continue
		}
		n++
		// the Set(base, overlay) calls dominated by the nil branch
		var g formula = fConst{false}
		found := false
		for _, i := range allInstrs(leaf) {
			ci, ok := i.(*ssa.Call)
			if !ok || calleeFullName(ci) != "(reflect.Value).Set" || ci.Call.Args[0] != base || ci.Call.Args[1] != ov || !nilSucc.Dominates(ci.Block()) {
				continue
			}
			found = true
			g = fOr{g, pb.pathCond(nilSucc, ci.Block())}
		}
		if !found {
			c.bad(rule, relName(leaf)+"#nil-base", cc.Pos(), "on the nil-base branch the layer's pointer is never installed as it is (base.Set(overlay)): a pointee shared with other references of the same layer is duplicated")
			continue
		}
		fb, fi := map[string]bool{}, map[string]bool{}
		atomsOf(g, fb, fi)
		_, counter := forAll(g, nil, func(e env, fv bool) bool { return fv || !e.B["sameElemType"] })
		c.check(fb["sameElemType"] && counter == "", rule, relName(leaf)+"#nil-base", cc.Pos(), "a nil base pointer with the layer's pointee type receives the layer's (copied, memoised) pointer itself",
			"with a nil base pointer and equal pointee types the layer's pointer is not always installed as it is ("+counter+"): the field gets a twin of a node that other references of the same layer still share - identical references differ in the result and cycles open")
	}
	if n == 0 {
		c.bad(rule, relName(leaf), leaf.Pos(), "no base.IsNil() branch found in the leaf overlay")
	}
}

// c03SliceWindow: the slice handler copies the whole backing array (in.Slice(0, in.Cap()) into
// out.Slice(0, out.Cap())), so every slice the copier pre-allocates for an input x must have x's capacity;
// a shorter one makes the element loop index past the end of the output (reflect panics in Config).
func c03SliceWindow(c *Ctx, cp *copier, rule string) {
	wholeWindow := false
	for _, i := range allInstrs(cp.hSlice) {
		ci, ok := i.(*ssa.Call)
		if !ok || calleeFullName(ci) != "(reflect.Value).Slice" || len(ci.Call.Args) != 3 {
			continue
		}
		if hi, ok := ci.Call.Args[2].(*ssa.Call); ok && calleeFullName(hi) == "(reflect.Value).Cap" && sameValue(hi.Call.Args[0], ci.Call.Args[0]) && ci.Call.Args[0] == ssa.Value(cp.hSlice.Params[1]) {
			wholeWindow = true
		}
	}
	if !wholeWindow {
		c.okTrivial(rule, "copier", cp.hSlice.Pos(), "the slice handler does not copy the input's capacity window: pre-allocated outputs need no capacity agreement")
		return
	}
	n := 0
	for f := range cp.scc {
		for _, i := range allInstrs(f) {
			ci, ok := i.(*ssa.Call)
			if !ok || calleeFullName(ci) != "reflect.MakeSlice" {
				continue
			}
			n++
			ln, okL := ci.Call.Args[1].(*ssa.Call)
			cp2, okC := ci.Call.Args[2].(*ssa.Call)
			good := okL && okC && calleeFullName(ln) == "(reflect.Value).Len" && calleeFullName(cp2) == "(reflect.Value).Cap" && sameValue(ln.Call.Args[0], cp2.Call.Args[0])
			c.check(good, rule, relName(f)+"#makeslice", ci.Pos(), "the pre-allocated slice has the input's length and capacity",
				"the slice handler copies the input's whole capacity window, but this output slice is made with ("+canon(ci.Call.Args[1])+", "+canon(ci.Call.Args[2])+"): for an input with cap > len the element loop runs past the end of the output and reflect panics inside Config")
		}
	}
	if n == 0 {
		c.bad(rule, "copier", cp.hSlice.Pos(), "no reflect.MakeSlice found in the copier")
	}
}

// c03OverlayNotRecopied: compose hands the overlayer a private deep copy of each source value, in which all
// references to one pointee already share one copy. A second pass of the copier over (part of) that copy gives
// the pointers inside it a second identity, distinct from the other references to the same pointees (D35). So
// no value derived from the overlay operand of an overlayer method may be fed to the deep copier as input.
func c03OverlayNotRecopied(c *Ctx, cp *copier, rule string) {
	w := c.W
	n := 0
	for _, f := range w.funcsIn("") {
		if f.Signature.Recv() == nil || namedTypeName(f.Signature.Recv().Type()) != ".overlayer" || len(f.Params) < 3 {
			continue
		}
		ov := ssa.Value(f.Params[len(f.Params)-1])
		c.analysed(relName(f))
		bad := false
		for _, i := range allInstrs(f) {
			ci, ok := i.(*ssa.Call)
			if !ok {
				continue
			}
			callee := staticCallee(ci)
			if callee == nil || !(cp.scc[callee] || callee == origin(cp.valM)) {
				continue
			}
			in := ci.Call.Args[1]
			n++
			fromOv := derivesAny(in, func(v ssa.Value) bool { return v == ov }, &flowOpts{through: map[string]bool{"(reflect.Value).Elem": true, "(reflect.Value).Index": true, "(reflect.Value).Field": true, "(reflect.Value).Slice": true}})
			if fromOv {
				bad = true
				c.bad(rule, relName(f)+"#"+callee.Name(), ci.Pos(), "the overlayer deep-copies %s, a part of its overlay operand, a second time: pointers inside it get a second copy, so references that were identical in the source value (an array element in an interface field and a slice element) differ in the result", canon(in))
			}
		}
		if !bad {
			c.ok(rule, relName(f), f.Pos(), "no part of the overlay operand is fed to the deep copier again")
		}
	}
	if n == 0 {
		c.okTrivial(rule, "overlayer", token.NoPos, "the overlayer never calls the deep copier")
	}
}
