package main

import (
	_ "embed"
	"encoding/json"
	"go/types"
	"os"
	"sort"
	"strings"

	"golang.org/x/tools/go/ssa"
)

// Rename tolerance.
//
// The rules name their anchors (functions, types, fields of the repository). Exported names are API; unexported
// ones can be renamed by any refactoring. anchors.json (embedded; regenerated with -gen-anchors on the tree the
// rules were confirmed against) records, for every named type, field and function of the repository, a
// structural fingerprint. When a recorded unexported name is missing from the current tree and exactly one *new*
// object of the same package has the same fingerprint, the rules see that object under its recorded name.
// Anything ambiguous stays unresolved (the anchor is then reported as undecided, as before).

//go:embed anchors.json
var anchorsJSON []byte

type anchorField struct {
	Name string `json:"n"`
	Type string `json:"t"`
}
type anchorType struct {
	Under  string        `json:"u"` // kind of the underlying type, or its type string for non-structs
	Fields []anchorField `json:"f,omitempty"`
}
type anchorFunc struct {
	Sig string   `json:"s"`
	Ext []string `json:"x,omitempty"`
	// Full: the name the rules and the reviewed-idiom tables know the function by (relName at recording time)
	Full string `json:"f,omitempty"`
	// CF: the callee name (types.Func.FullName) the rules compare call sites with
	CF string `json:"c,omitempty"`
	// parameter / result types and names in recorded order (normsig.go)
	PT []string `json:"pt,omitempty"`
	PN []string `json:"pn,omitempty"`
	RT []string `json:"rt,omitempty"`
	RN []string `json:"rn,omitempty"`
}
type anchorTable struct {
	Types map[string]map[string]anchorType `json:"types"`
	Funcs map[string]map[string]anchorFunc `json:"funcs"`
}

var (
	oldTypeName  = map[*types.TypeName]string{}
	oldFuncName  = map[*types.Func]string{}
	oldFieldName = map[*types.Var]string{}
	// movedFunc: a recorded function that is absent under its recorded receiver, and the function of the current tree
	// that is taken for it: a method made a plain function (or the reverse, or moved to another receiver) under the
	// same name, or under a new name with the same external callees. Keyed by rel+"|"+recorded key.
	movedFunc    = map[string]*types.Func{}
	movedFuncObj = map[*types.Func]string{}
	movedFull    = map[*types.Func]string{}
	// recordedFull: rel|key -> the recorded rendering of a function that still exists under its recorded receiver
	// type and name (the receiver may have changed between pointer and value)
	recordedFull = map[string]string{}
	recordedCF   = map[string]string{}
	movedCF      = map[*types.Func]string{}
	renameNotes  []string
)

func tname(o *types.TypeName) string {
	if n, ok := oldTypeName[o]; ok {
		return n
	}
	return o.Name()
}
func vname(v *types.Var) string {
	if n, ok := oldFieldName[v]; ok {
		return n
	}
	// a field of an instantiated generic struct: the renaming is recorded on the field of the generic type
	if o := v.Origin(); o != v {
		if n, ok := oldFieldName[o]; ok {
			return n
		}
	}
	return v.Name()
}
func funcObjName(f *types.Func) string {
	if n, ok := oldFuncName[f.Origin()]; ok {
		return n
	}
	if k, ok := movedFuncObj[f.Origin()]; ok {
		return k[strings.LastIndex(k, ".")+1:]
	}
	return f.Name()
}

// fnName is f.Name() under the recorded names.
func fnName(f *ssa.Function) string {
	if f == nil {
		return ""
	}
	if o, ok := origin(f).Object().(*types.Func); ok && o != nil {
		return funcObjName(o)
	}
	return f.Name()
}

// unrename rewrites a rendered name (FullName / String of a repo function) to the recorded names.
func unrename(s string, f *types.Func) string {
	if f == nil {
		return s
	}
	f = f.Origin()
	if old, ok := oldFuncName[f]; ok && strings.HasSuffix(s, "."+f.Name()) {
		s = s[:len(s)-len(f.Name())] + old
	}
	if sig, ok := f.Type().(*types.Signature); ok && sig.Recv() != nil {
		t := sig.Recv().Type()
		if p, ok := t.(*types.Pointer); ok {
			t = p.Elem()
		}
		if n, ok := t.(*types.Named); ok {
			if old, ok := oldTypeName[n.Origin().Obj()]; ok {
				s = strings.Replace(s, "."+n.Obj().Name()+")", "."+old+")", 1)
				s = strings.Replace(s, "."+n.Obj().Name()+"[", "."+old+"[", 1)
			}
		}
	}
	return s
}

func typeStr(t types.Type) string {
	s := types.TypeString(t, func(p *types.Package) string { return p.Path() })
	// recorded names for renamed types
	for o, old := range oldTypeName {
		if o.Pkg() != nil {
			s = strings.ReplaceAll(s, o.Pkg().Path()+"."+o.Name(), o.Pkg().Path()+"."+old)
		}
	}
	return s
}

func relOfPkg(p *types.Package) string {
	return strings.TrimPrefix(strings.TrimPrefix(p.Path(), modPath), "/")
}

func fingerprintType(n *types.Named) anchorType {
	at := anchorType{}
	switch u := n.Underlying().(type) {
	case *types.Struct:
		at.Under = "struct"
		for i := 0; i < u.NumFields(); i++ {
			at.Fields = append(at.Fields, anchorField{Name: vname(u.Field(i)), Type: typeStr(u.Field(i).Type())})
		}
	case *types.Interface:
		at.Under = "interface"
		for i := 0; i < u.NumMethods(); i++ {
			at.Fields = append(at.Fields, anchorField{Name: u.Method(i).Name(), Type: typeStr(u.Method(i).Type())})
		}
	default:
		at.Under = typeStr(u)
	}
	return at
}

func recvNameOf(sig *types.Signature) string {
	if sig.Recv() == nil {
		return ""
	}
	t := sig.Recv().Type()
	if p, ok := t.(*types.Pointer); ok {
		t = p.Elem()
	}
	if n, ok := t.(*types.Named); ok {
		return tname(n.Origin().Obj())
	}
	return ""
}

func fingerprintFunc(w *World, f *ssa.Function) (key string, af anchorFunc, ok bool) {
	o, _ := f.Object().(*types.Func)
	if o == nil || f.Parent() != nil {
		return "", af, false
	}
	sig := o.Type().(*types.Signature)
	key = funcObjName(o)
	if r := recvNameOf(sig); r != "" {
		key = r + "." + key
	}
	// signature without the receiver
	af.Sig = sigFingerprint(sig)
	seen := map[string]bool{}
	for _, i := range allInstrs(f) {
		ci, isCall := i.(ssa.CallInstruction)
		if !isCall {
			continue
		}
		cc := ci.Common()
		var name string
		if cc.IsInvoke() {
			name = cc.Method.Origin().FullName()
		} else if callee := cc.StaticCallee(); callee != nil {
			if co, ok := origin(callee).Object().(*types.Func); ok && co != nil {
				if co.Pkg() != nil && strings.HasPrefix(co.Pkg().Path(), modPath) && !co.Exported() {
					continue // unexported repo callees may be renamed themselves
				}
				name = co.Origin().FullName()
			}
		}
		if name != "" && !seen[name] {
			seen[name] = true
			af.Ext = append(af.Ext, name)
		}
	}
	sort.Strings(af.Ext)
	af.Full = relName(f)
	af.CF = unrename(o.Origin().FullName(), o)
	af.PT, af.PN = tupleStrings(sig.Params())
	af.RT, af.RN = tupleStrings(sig.Results())
	return key, af, true
}

func genAnchors(w *World) anchorTable {
	t := anchorTable{Types: map[string]map[string]anchorType{}, Funcs: map[string]map[string]anchorFunc{}}
	for _, p := range w.Pkgs {
		rel := relOfPkg(p.Types)
		t.Types[rel] = map[string]anchorType{}
		t.Funcs[rel] = map[string]anchorFunc{}
		sc := p.Types.Scope()
		for _, nm := range sc.Names() {
			if tn, ok := sc.Lookup(nm).(*types.TypeName); ok && !tn.IsAlias() {
				if n, ok := tn.Type().(*types.Named); ok {
					t.Types[rel][nm] = fingerprintType(n)
				}
			}
		}
	}
	for _, f := range w.Funcs {
		if key, af, ok := fingerprintFunc(w, f); ok {
			rel := w.pkgRelOfFn(f)
			if t.Funcs[rel] != nil {
				t.Funcs[rel][key] = af
			}
		}
	}
	return t
}

func writeAnchors(w *World, path string) error {
	b, err := json.MarshalIndent(genAnchors(w), "", " ")
	if err != nil {
		return err
	}
	return os.WriteFile(path, append(b, '\n'), 0o644)
}

func jaccard(a, b []string) float64 {
	if len(a) == 0 && len(b) == 0 {
		return 1
	}
	m := map[string]bool{}
	for _, x := range a {
		m[x] = true
	}
	inter := 0
	for _, x := range b {
		if m[x] {
			inter++
		}
	}
	return float64(inter) / float64(len(a)+len(b)-inter)
}

// detectRenames fills the old-name maps for this World.
func (w *World) detectRenames() {
	var tab anchorTable
	if json.Unmarshal(anchorsJSON, &tab) != nil || tab.Types == nil {
		return
	}
	for rel, rec := range tab.Types {
		if recordedTypeNames[rel] == nil {
			recordedTypeNames[rel] = map[string]bool{}
		}
		for nm := range rec {
			recordedTypeNames[rel][nm] = true
		}
	}
	for rel, rec := range tab.Funcs {
		for k, af := range rec {
			if af.Full != "" {
				recordedFull[rel+"|"+k] = af.Full
			}
			if af.CF != "" {
				recordedCF[rel+"|"+k] = af.CF
			}
		}
	}
	// ---- types ----
	// (repeated: the fingerprint of a type mentions other types, which may have been renamed in the same change and
	// are only written under their recorded names once they have been identified)
	for pass := 0; pass < 3; pass++ {
		before := len(oldTypeName)
		for _, p := range w.Pkgs {
			rel := relOfPkg(p.Types)
			rec := tab.Types[rel]
			if rec == nil {
				continue
			}
			sc := p.Types.Scope()
			var fresh []*types.TypeName
			for _, nm := range sc.Names() {
				if tn, ok := sc.Lookup(nm).(*types.TypeName); ok && !tn.IsAlias() {
					if _, known := rec[nm]; !known {
						fresh = append(fresh, tn)
					}
				}
			}
			names := make([]string, 0, len(rec))
			for nm := range rec {
				names = append(names, nm)
			}
			sort.Strings(names)
			for _, nm := range names {
				if sc.Lookup(nm) != nil || types.Universe.Lookup(nm) != nil || len(nm) == 0 || (nm[0] >= 'A' && nm[0] <= 'Z') {
					continue
				}
				want := rec[nm]
				var match []*types.TypeName
				for _, tn := range fresh {
					n, ok := tn.Type().(*types.Named)
					if !ok {
						continue
					}
					got := fingerprintType(n)
					if got.Under != want.Under || len(got.Fields) != len(want.Fields) {
						continue
					}
					same := true
					for i := range got.Fields {
						gt := strings.ReplaceAll(got.Fields[i].Type, p.Types.Path()+"."+tn.Name(), p.Types.Path()+"."+nm)
						if gt != want.Fields[i].Type {
							same = false
						}
					}
					if same {
						match = append(match, tn)
					}
				}
				if len(match) == 1 {
					if _, done := oldTypeName[match[0]]; !done {
						oldTypeName[match[0]] = nm
						renameNotes = append(renameNotes, "type "+rel+"."+match[0].Name()+" is taken as the recorded "+nm)
					}
				}
			}
		}
		if len(oldTypeName) == before {
			break
		}
	}
	// ---- fields ----
	for _, p := range w.Pkgs {
		rel := relOfPkg(p.Types)
		sc := p.Types.Scope()
		for _, nm := range sc.Names() {
			tn, ok := sc.Lookup(nm).(*types.TypeName)
			if !ok || tn.IsAlias() {
				continue
			}
			want, known := tab.Types[rel][tname(tn)]
			st, isSt := tn.Type().Underlying().(*types.Struct)
			if !known || !isSt || want.Under != "struct" || len(want.Fields) != st.NumFields() {
				continue
			}
			recNames := map[string]bool{}
			for _, f := range want.Fields {
				recNames[f.Name] = true
			}
			curNames := map[string]bool{}
			for i := 0; i < st.NumFields(); i++ {
				curNames[st.Field(i).Name()] = true
			}
			for i := 0; i < st.NumFields(); i++ {
				f := st.Field(i)
				wf := want.Fields[i]
				if f.Name() == wf.Name || curNames[wf.Name] || recNames[f.Name()] || f.Exported() {
					continue
				}
				if typeStr(f.Type()) == wf.Type {
					oldFieldName[f] = wf.Name
					renameNotes = append(renameNotes, "field "+rel+"."+tname(tn)+"."+f.Name()+" is taken as the recorded "+wf.Name)
				}
			}
			// fields that were renamed and moved: a recorded name that is gone and a new unexported name pair up when
			// they are the only leftovers of their type
			taken := map[string]bool{}
			for i := 0; i < st.NumFields(); i++ {
				if on, ok := oldFieldName[st.Field(i)]; ok {
					taken[on] = true
				}
			}
			goneByType := map[string][]string{}
			for _, wf := range want.Fields {
				if !curNames[wf.Name] && !taken[wf.Name] {
					goneByType[wf.Type] = append(goneByType[wf.Type], wf.Name)
				}
			}
			newByType := map[string][]*types.Var{}
			for i := 0; i < st.NumFields(); i++ {
				f := st.Field(i)
				if _, done := oldFieldName[f]; done || recNames[f.Name()] || f.Exported() {
					continue
				}
				newByType[typeStr(f.Type())] = append(newByType[typeStr(f.Type())], f)
			}
			for ts, gone := range goneByType {
				if cur := newByType[ts]; len(gone) == 1 && len(cur) == 1 {
					oldFieldName[cur[0]] = gone[0]
					renameNotes = append(renameNotes, "field "+rel+"."+tname(tn)+"."+cur[0].Name()+" (moved) is taken as the recorded "+gone[0])
				}
			}
		}
	}
	// ---- functions ----
	type cand struct {
		obj *types.Func
		key string
		af  anchorFunc
	}
	byRel := map[string][]cand{}
	present := map[string]map[string]bool{}
	for _, f := range w.Funcs {
		key, af, ok := fingerprintFunc(w, f)
		if !ok {
			continue
		}
		rel := w.pkgRelOfFn(f)
		if present[rel] == nil {
			present[rel] = map[string]bool{}
		}
		present[rel][key] = true
		byRel[rel] = append(byRel[rel], cand{f.Object().(*types.Func), key, af})
	}
	for rel, rec := range tab.Funcs {
		keys := make([]string, 0, len(rec))
		for k := range rec {
			keys = append(keys, k)
		}
		sort.Strings(keys)
		for _, k := range keys {
			if present[rel][k] {
				continue
			}
			base := k
			recv := ""
			if i := strings.IndexByte(k, '.'); i >= 0 {
				recv, base = k[:i], k[i+1:]
			}
			if base == "" || (base[0] >= 'A' && base[0] <= 'Z') || base == "init" {
				continue
			}
			want := rec[k]
			var best *cand
			bestJ, second := 0.0, 0.0
			for ci := range byRel[rel] {
				c := &byRel[rel][ci]
				if _, known := rec[c.key]; known {
					continue // an existing recorded function, not a new name
				}
				crecv := ""
				if i := strings.IndexByte(c.key, '.'); i >= 0 {
					crecv = c.key[:i]
				}
				if crecv != recv || c.af.Sig != want.Sig {
					continue
				}
				j := jaccard(c.af.Ext, want.Ext)
				if j > bestJ {
					second, bestJ, best = bestJ, j, c
				} else if j > second {
					second = j
				}
			}
			if best != nil && bestJ >= 0.6 && second < bestJ {
				oldFuncName[best.obj.Origin()] = base
				renameNotes = append(renameNotes, "function "+rel+"."+best.key+" is taken as the recorded "+k)
				continue
			}
			// a method made a function (the receiver dropped or passed as a parameter), a function made a method, a
			// method moved to another receiver: same name, another receiver, and the only such function
			var same, alike []*cand
			bestJ, second = 0.0, 0.0
			for ci := range byRel[rel] {
				c := &byRel[rel][ci]
				if _, known := rec[c.key]; known {
					continue
				}
				if _, taken := oldFuncName[c.obj.Origin()]; taken {
					continue
				}
				if _, taken := movedFuncObj[c.obj.Origin()]; taken || c.obj.Exported() {
					continue
				}
				cbase := c.key
				if i := strings.IndexByte(c.key, '.'); i >= 0 {
					cbase = c.key[i+1:]
				}
				if cbase == base {
					same = append(same, c)
					continue
				}
				if len(want.Ext) >= 2 {
					if j := jaccard(c.af.Ext, want.Ext); j >= 0.75 {
						if j > bestJ {
							second, bestJ = bestJ, j
							alike = []*cand{c}
						} else if j > second {
							second = j
						}
					}
				}
			}
			var pick *cand
			if len(same) == 1 {
				pick = same[0]
			} else if len(same) == 0 && len(alike) == 1 && second < bestJ {
				pick = alike[0]
			}
			if pick != nil {
				movedFunc[rel+"|"+k] = pick.obj.Origin()
				movedFuncObj[pick.obj.Origin()] = k
				if want.Full != "" {
					movedFull[pick.obj.Origin()] = want.Full
				}
				if want.CF != "" {
					movedCF[pick.obj.Origin()] = want.CF
				}
				renameNotes = append(renameNotes, "function "+rel+"."+pick.key+" is taken as the recorded "+k+" (receiver or name changed)")
			}
		}
	}
}

// renameAssumptions reports, for the evidence file, which objects of the current tree the rules saw under a
// recorded name.
func renameAssumptions() []string {
	seen := map[string]bool{}
	var out []string
	for _, n := range renameNotes {
		if !seen[n] {
			seen[n] = true
			out = append(out, "rename tolerance: "+n+" (same structural fingerprint, recorded name absent)")
		}
	}
	sort.Strings(out)
	return out
}

// sigFingerprint: the signature without receiver and without parameter / result names (renaming a parameter is not a
// change of the function's identity).
func sigFingerprint(sig *types.Signature) string {
	strip := func(t *types.Tuple) *types.Tuple {
		vars := make([]*types.Var, t.Len())
		for i := 0; i < t.Len(); i++ {
			vars[i] = types.NewVar(0, nil, "", t.At(i).Type())
		}
		return types.NewTuple(vars...)
	}
	return typeStr(types.NewSignatureType(nil, nil, nil, strip(sig.Params()), strip(sig.Results()), sig.Variadic()))
}

// recordedCalleeName: the recorded callee name of a repository function that was moved (receiver or name changed) or
// whose receiver changed between pointer and value; "" when the function is known under its current name.
func recordedCalleeName(fo *types.Func) string {
	fo = fo.Origin()
	if cf, ok := movedCF[fo]; ok {
		return cf
	}
	sig, ok := fo.Type().(*types.Signature)
	if !ok || sig.Recv() == nil || fo.Pkg() == nil {
		return ""
	}
	key := funcObjName(fo)
	if r := recvNameOf(sig); r != "" {
		key = r + "." + key
	}
	if cf := recordedCF[relOfPkg(fo.Pkg())+"|"+key]; cf != "" {
		_, nowPtr := sig.Recv().Type().(*types.Pointer)
		if wasPtr := strings.HasPrefix(cf, "(*"); wasPtr != nowPtr {
			return cf
		}
	}
	return ""
}
