package main

import (
	"go/token"
	"go/types"
	"strings"

	"golang.org/x/tools/go/ssa"
)

func init() {
	props["C12"] = &propMeta{
		run: runC12,
		explanation: "Decides for both flag packages: only flags that were explicitly set are read back (Visit, never VisitAll) and every visited, known flag is written - the visit callback may return without writing only for an unknown name or a value it cannot read " +
			"(universally quantified reaching-condition check); the value returned starts from the all-unset translated struct of the registration-time transformer; every registration's default derives from the template's field; per kind arm the converted type, " +
			"the asserted Go type and the arm's kind agree; in the standard-library package (which registers wider flags for narrow kinds) the narrowing reflect conversion is dominated by the overflow helper, whose arms cover all numeric kinds with the matching " +
			"Overflow method, and an overflow is returned as an error; the accumulate-after-first-set discipline of the helper Set methods; source-specific tag precedence for names. Not decided: flag-name strings and parsed values.",
		assumptions: []string{"flag/pflag FlagSet.Visit visits exactly the flags that were set", "C10/C14/C15 for the chain, aliases and parsers"},
	}
}

func runC12(c *Ctx) {
	c.rule("visit-only", "Set.Value iterates the flag set with Visit (explicitly set flags) exactly once and never with VisitAll; it returns ReverseTranslate of the struct created by Translate at registration, with that transformer", 4)
	c.rule("visited-flags-written", "the Visit callback returns without writing the field (or recording an error) only when the flag name is unknown or its value cannot be obtained: a flag that was given on the command line is never silently dropped", 2)
	c.rule("default-from-template", "every flag registration's default (or the pointer wrapped by its helper) derives from transform.GetField(sf, tmpl) of the same iteration", 60)
	c.rule("kind-table", "in each kind arm of the registration switch the reflect type converted to, the asserted Go type and the arm's kind agree", 30)
	c.rule("typed-registration", "in the pflag source (which relies on pflag's typed flags for range checking) the template value asserted to the arm's numeric type reaches the registration method without a widening conversion", 1)
	c.rule("default-nameconfig", "(sibling agreement) DefaultFlagNameConfig of both flag packages returns a freshly allocated NameConfig with FieldNameEncodeCasing = EncodeUpperCamelCase and TagEncodeCasing = EncodeKebabCase", 2)
	c.rule("ptr-valued-flag-arm", "(sibling agreement) both Visit callbacks set a non-pointerified field (slice or map kind) from the pointee of a flag value that is a pointer to the field's own type", 2)
	c.rule("parse-once", "both Value methods parse the flag set only under !s.Flags.Parsed()", 2)
	c.rule("flag-name-recorded", "in both flag packages every flag name computed for a field is recorded in the name->field table on every path of that loop iteration (in particular before the 'flag already registered by the application' skip)", 2)
	c.rule("helper-writes-through", "every pointer-backed flag helper the pflag source constructs (and whose pointer it keeps to read the value back) writes through that pointer in Set and never re-binds it", 5)
	c.rule("narrowing-guard", "standard-library flags: the reflect conversion to the field's (possibly narrower) type is dominated by the overflow helper returning false; the helper routes every integer kind to OverflowInt, unsigned to OverflowUint, both float kinds to OverflowFloat and both complex kinds to OverflowComplex", 5)
	c.rule("error-not-value", "when an overflow was recorded, Value returns it as a non-nil error and the reverse-translated value is not returned", 1)
	c.rule("accumulate", "each helper Set returns the parse error; the first Set after the default replaces the value and clears the defaulted mark; later Sets append/merge", 6)
	c.rule("name-precedence", "mkname consults the source-specific tag before the dials tag", 2)
	c.rule("flatten-flag-accumulates", "a flag given for a leaf that precedes an empty nested struct is not dropped when the flattened struct is rebuilt; shared with C10", 3)
	c10FlattenFlag(c)
	c15Narrowing(c) // (shared with C15) the parsers the flag helpers use never narrow a parsed number unbounded
	c.rule("syntax-agree", "the text a flag advertises as its default (the helpers' String) can be read back by the helper's own parser: quoting, separators and signedness of integer formatting agree; shared with C15", 8)
	c15Syntax(c)

	w := c.W
	for _, pk := range []struct {
		rel, fs, tag string
		std          bool
	}{{"sources/flag", "(*flag.FlagSet)", "dialsflag", true}, {"sources/pflag", "(*github.com/spf13/pflag.FlagSet)", "dialspflag", false}} {
		val := w.fn(pk.rel, "Set.Value")
		reg := w.fn(pk.rel, "Set.registerFlags")
		mk := w.fn(pk.rel, "Set.mkname")
		if !c.need(val != nil && reg != nil && mk != nil, pk.rel+".Set methods") {
			continue
		}
		c.analysed(relName(val))
		c.analysed(relName(reg))
		short := pk.rel[strings.LastIndex(pk.rel, "/")+1:]

		// ---- visit-only ---------------------------------------------------------
		visits := callsTo(val, pk.fs+".Visit")
		all := 0
		for _, f := range w.funcsIn(pk.rel) {
			all += len(callsTo(f, pk.fs+".VisitAll"))
		}
		c.check(len(visits) == 1 && all == 0, "visit-only", short+"#visit", val.Pos(), "one Visit call, no VisitAll", "the flag set is not iterated with exactly one Visit (VisitAll would read unset flags and shadow lower layers)")
		okRT := false
		for _, r := range returnsOf(val) {
			rv := retVals(r)
			if e, ok := rv[0].(*ssa.Extract); ok {
				if call, ok := e.Tuple.(*ssa.Call); ok && strings.HasSuffix(calleeFullName(call), "transform.Transformer).ReverseTranslate") {
					_, a0 := loadOfTypeField(call.Call.Args[0], pk.rel+".Set", "tfmr")
					_, a1 := loadOfTypeField(call.Call.Args[1], pk.rel+".Set", "trnslVal")
					okRT = a0 && a1
				}
			}
		}
		// registration stores Translate() result and its transformer
		okReg := false
		for _, st := range w.storesToField(w.field(pk.rel, "Set", "trnslVal")) {
			if origin(st.Parent()) != reg {
				okReg = false
				break
			}
			if e, ok := st.Val.(*ssa.Extract); ok && e.Index == 0 {
				if call, ok := e.Tuple.(*ssa.Call); ok && strings.HasSuffix(calleeFullName(call), "transform.Transformer).Translate") {
					for _, st2 := range w.storesToField(w.field(pk.rel, "Set", "tfmr")) {
						if st2.Val == call.Call.Args[0] {
							okReg = true
						}
					}
				}
			}
		}
		c.check(okRT && okReg, "visit-only", short+"#result", val.Pos(), "Value returns s.tfmr.ReverseTranslate(s.trnslVal), the all-unset Translate() value of that transformer", "Value does not reverse-translate the registration-time all-unset struct with its transformer")

		// ---- visited-flags-written ---------------------------------------------------
		if len(visits) == 1 {
			if mc, ok := visits[0].Common().Args[len(visits[0].Common().Args)-1].(*ssa.MakeClosure); ok {
				c12Closure(c, mc.Fn.(*ssa.Function), short, pk.std)
			} else {
				c.undecided("visited-flags-written", short, visits[0].Pos(), "the Visit callback is not a closure literal")
			}
		}

		// ---- default-from-template ------------------------------------------------------
		getField := w.fn("transform", "GetField")
		n := 0
		for _, i := range allInstrs(reg) {
			ci, ok := i.(*ssa.Call)
			if !ok || !strings.HasPrefix(calleeFullName(ci), pk.fs+".") {
				continue
			}
			m := strings.TrimPrefix(calleeFullName(ci), pk.fs+".")
			if m == "Lookup" || m == "Parsed" {
				continue
			}
			n++
			okD := false
			for _, a := range ci.Call.Args[1:] {
				if c12FromGetField(a, getField, 0) {
					okD = true
				}
			}
			c.check(okD, "default-from-template", short+"#"+m, ci.Pos(), m+": default derives from transform.GetField(sf, tmpl)", m+" is registered with a default that does not derive from the template's field")
		}

		// ---- kind-table -------------------------------------------------------------------
		c12KindTable(c, reg, short)
		c12TypeArmTable(c, reg, short, "kind-table")

		// ---- name-precedence -----------------------------------------------------------------
		c.analysed(relName(mk))
		var first *ssa.Call
		for _, i := range allInstrs(mk) {
			if ci, ok := i.(*ssa.Call); ok && calleeFullName(ci) == "(reflect.StructTag).Lookup" {
				if first == nil || domI(ci, first) {
					first = ci
				}
			}
		}
		okN := false
		if first != nil {
			if s, ok := constString(first.Call.Args[1]); ok && s == pk.tag {
				// returned when ok
				for _, r := range returnsOf(mk) {
					if e, ok := retVals(r)[0].(*ssa.Extract); ok && e.Tuple == ssa.Value(first) && e.Index == 0 {
						okN = true
					}
				}
			}
		}
		// ... or one lookup in a forward loop over a literal list of tag names that starts with the specific tag, the
		// first hit being returned
		if !okN && first != nil {
			var names []ssa.Value
			var idx ssa.Value
			switch k := first.Call.Args[1].(type) {
			case *ssa.Index:
				if ld, ok := k.X.(*ssa.UnOp); ok && ld.Op == token.MUL {
					if al, ok := ld.X.(*ssa.Alloc); ok {
						names, idx = arrayElems(al), k.Index
					}
				}
			case *ssa.UnOp:
				if ia, ok := k.X.(*ssa.IndexAddr); ok && k.Op == token.MUL {
					idx = ia.Index
					switch x := ia.X.(type) {
					case *ssa.Alloc:
						names = arrayElems(x)
					case *ssa.Slice:
						if al, ok := x.X.(*ssa.Alloc); ok {
							names = arrayElems(al)
						}
					}
				}
			}
			nLook := 0
			for _, i := range allInstrs(mk) {
				if ci, ok := i.(*ssa.Call); ok && calleeFullName(ci) == "(reflect.StructTag).Lookup" {
					nLook++
				}
			}
			// ... or over a package-level table of tag names that only its initialiser writes
			firstName := ""
			if len(names) >= 1 {
				firstName, _ = constString(names[0])
			} else if u, ok := first.Call.Args[1].(*ssa.UnOp); ok && u.Op == token.MUL {
				if ia, ok := u.X.(*ssa.IndexAddr); ok {
					if g, ok := ia.X.(*ssa.Global); ok {
						if tab := globalStringArray(w, g); len(tab) >= 1 {
							idx = ia.Index
							firstName = tab[0]
						}
					}
				}
			} else if ix, ok := first.Call.Args[1].(*ssa.Index); ok {
				// ranging over the array value itself: a copy of the table read once before the loop
				if ld, ok := ix.X.(*ssa.UnOp); ok && ld.Op == token.MUL {
					if g, ok := ld.X.(*ssa.Global); ok {
						if tab := globalStringArray(w, g); len(tab) >= 1 {
							idx = ix.Index
							firstName = tab[0]
						}
					}
				}
			}
			if firstName != "" && idx != nil && isForwardRangeIndex(idx) && nLook == 1 {
				if firstName == pk.tag {
					// the hit is returned: a return of the looked-up value dominated by ok, and the loop has no other early exit
					for _, r := range returnsOf(mk) {
						if e, ok := retVals(r)[0].(*ssa.Extract); ok && e.Tuple == ssa.Value(first) && e.Index == 0 {
							for _, ec := range condsDominating(r.Block()) {
								if e2, ok := ec.Cond.(*ssa.Extract); ok && e2.Tuple == ssa.Value(first) && e2.Index == 1 && ec.Val && ec.If.Block() == first.Block() {
									okN = true
								}
							}
						}
					}
				}
			}
		}
		c.check(okN, "name-precedence", short, mk.Pos(), "the "+pk.tag+" tag is consulted first and returned when present", "mkname does not give the "+pk.tag+" tag precedence")

		// ---- narrowing-guard / error-not-value (standard library package) --------------------------
		if pk.std {
			c12Narrowing(c, val)
		}
	}

	// ---- accumulate ----------------------------------------------------------------------------------
	for _, typ := range []string{"StringSliceFlag", "StringSetFlag", "MapStringStringSliceFlag", "MapStringStringFlag", "SignedIntegralSliceFlag", "UnsignedIntegralSliceFlag"} {
		f := w.fn("sources/flag/flaghelper", typ+".Set")
		if !c.need(f != nil, "flaghelper."+typ+".Set") {
			continue
		}
		c.analysed(relName(f))
		c12Accumulate(c, f, typ)
	}
	c12WritesThrough(c)
	c12NameRecorded(c, "flag-name-recorded")
	c12PflagTypedRegistration(c)
	c12ParseOnce(c)
	c12DefaultNameConfig(c, "default-nameconfig")
	c12PtrValuedFlagArm(c, "ptr-valued-flag-arm")
}

func c12FromGetField(v ssa.Value, getField *ssa.Function, d int) bool {
	if d > 12 || v == nil {
		return false
	}
	switch x := v.(type) {
	case *ssa.Call:
		if staticCallee(x) == origin(getField) {
			return true
		}
		for _, a := range callArgs(x) {
			if c12FromGetField(a, getField, d+1) {
				return true
			}
		}
	case *ssa.TypeAssert:
		return c12FromGetField(x.X, getField, d+1)
	case *ssa.Convert:
		return c12FromGetField(x.X, getField, d+1)
	case *ssa.ChangeType:
		return c12FromGetField(x.X, getField, d+1)
	case *ssa.MakeInterface:
		return c12FromGetField(x.X, getField, d+1)
	case *ssa.ChangeInterface:
		return c12FromGetField(x.X, getField, d+1)
	case *ssa.Phi:
		for _, e := range x.Edges {
			if !c12FromGetField(e, getField, d+1) {
				return false
			}
		}
		return len(x.Edges) > 0
	case *ssa.Extract:
		return c12FromGetField(x.Tuple, getField, d+1)
	case *ssa.UnOp:
		return c12FromGetField(x.X, getField, d+1)
	}
	return false
}

func c12Closure(c *Ctx, fn *ssa.Function, short string, std bool) {
	c.analysed(relName(fn))
	// writes: Set on a value derived from FieldByName(...), or a store to a captured error variable
	writes := map[*ssa.BasicBlock]bool{}
	for _, i := range allInstrs(fn) {
		switch x := i.(type) {
		case *ssa.Call:
			if calleeFullName(x) == "(reflect.Value).Set" {
				if fb, ok := x.Call.Args[0].(*ssa.Call); ok && calleeFullName(fb) == "(reflect.Value).FieldByName" {
					writes[x.Block()] = true
				}
			}
		case *ssa.Store:
			if _, ok := x.Addr.(*ssa.FreeVar); ok && isErrorType(x.Val.Type()) {
				writes[x.Block()] = true
				// the error recorded for one flag is not wiped by the next: only a non-nil error is ever recorded
				okNN := nonNilByConstruction(x.Val) || knownNil(x.Block(), x.Val, false)
				c.check(okNN, "visited-flags-written", short+"#error-kept", x.Pos(), "the captured error variable is only ever assigned a non-nil error",
					"the Visit callback assigns the captured error variable a possibly-nil value: the error recorded for one flag (out of range, not convertible) is overwritten by nil when a later-visited flag is fine, and the bad flag is silently dropped")
			}
		}
	}
	if len(writes) == 0 {
		c.bad("visited-flags-written", short, fn.Pos(), "the Visit callback never writes a field")
		return
	}
	pb := &predBuilder{name: func(v ssa.Value) string {
		e, ok := v.(*ssa.Extract)
		if !ok || e.Index != 1 {
			return ""
		}
		switch t := e.Tuple.(type) {
		case *ssa.Lookup:
			if _, ok := loadOfTypeField(t.X, "sources/"+short+".Set", "flagFieldName"); ok {
				return "nameKnown"
			}
			if _, ok := loadOfTypeField(t.X, "sources/"+short+".Set", "flagValues"); ok {
				return "valueKnown"
			}
		case *ssa.TypeAssert:
			if strings.HasSuffix(types.TypeString(t.AssertedType, nil), "flag.Getter") {
				return "valueKnown"
			}
		}
		return ""
	}}
	rows, bad := 0, false
	for _, r := range returnsOf(fn) {
		skip := writes[r.Block()]
		for b := range writes {
			if b.Dominates(r.Block()) {
				skip = true
			}
		}
		if skip {
			continue
		}
		g := pb.pathCondAvoid(fn.Blocks[0], r.Block(), writes)
		fb, fi := map[string]bool{}, map[string]bool{}
		atomsOf(g, fb, fi)
		n, counter := forAll(g, nil, func(e env, fv bool) bool {
			// a reason only counts if the path actually tested it
			return !fv || (fb["nameKnown"] && !e.B["nameKnown"]) || (fb["valueKnown"] && !e.B["valueKnown"])
		})
		rows += n
		if counter != "" {
			bad = true
			c.bad("visited-flags-written", short+"#return", r.Pos(), "the callback can return without writing a known, readable flag: %s (guard %s)", counter, g)
		}
	}
	if !bad {
		c.okRows("visited-flags-written", short, fn.Pos(), rows, "every return that writes nothing is explained by an unknown name / unreadable value (%d assignments)", rows)
	}
}

// globalInitType: for `var x = reflect.TypeOf(<expr>)` returns the static type of <expr>.
func globalInitType(w *World, g *ssa.Global) types.Type {
	initF := g.Pkg.Func("init")
	if initF == nil {
		return nil
	}
	for _, i := range allInstrs(initF) {
		st, ok := i.(*ssa.Store)
		if !ok || st.Addr != ssa.Value(g) {
			continue
		}
		call, ok := st.Val.(*ssa.Call)
		if !ok {
			return nil
		}
		switch calleeFullName(call) {
		case "reflect.TypeOf":
			if mi, ok := call.Call.Args[0].(*ssa.MakeInterface); ok {
				return mi.X.Type()
			}
		case "reflect.SliceOf":
			// reflect.SliceOf(<global elem type>)
			if ld, ok := call.Call.Args[0].(*ssa.UnOp); ok {
				if g2, ok := ld.X.(*ssa.Global); ok {
					if et := globalInitType(w, g2); et != nil {
						return types.NewSlice(et)
					}
				}
			}
		}
	}
	return nil
}

func c12KindTable(c *Ctx, reg *ssa.Function, short string) {
	w := c.W
	n := 0
	for _, i := range allInstrs(reg) {
		ta, ok := i.(*ssa.TypeAssert)
		if !ok || ta.CommaOk {
			continue
		}
		// operand: Interface(Convert(x, load global)) possibly with Addr
		ic, ok := ta.X.(*ssa.Call)
		if !ok || calleeFullName(ic) != "(reflect.Value).Interface" {
			continue
		}
		cv, ok := ic.Call.Args[0].(*ssa.Call)
		if !ok || calleeFullName(cv) != "(reflect.Value).Convert" {
			continue
		}
		ld, ok := cv.Call.Args[1].(*ssa.UnOp)
		if !ok {
			continue
		}
		g, ok := ld.X.(*ssa.Global)
		if !ok {
			continue
		}
		n++
		gt := globalInitType(w, g)
		name := short + "#" + types.TypeString(ta.AssertedType, nil)
		if gt == nil {
			c.undecided("kind-table", name, ta.Pos(), "cannot resolve the initializer of %s", g.Name())
			continue
		}
		okType := types.Identical(gt, ta.AssertedType)
		// arm kind
		want := int64(0)
		at := ta.AssertedType
		if p, ok := at.Underlying().(*types.Pointer); ok {
			at = p.Elem()
		}
		if b, ok := at.Underlying().(*types.Basic); ok {
			want = basicKindToReflect(b.Kind())
		}
		okKind := false
		desc := ""
		if _, ks := kindsAtSwitch(ta.Block()); len(ks) == 1 && ks[want] {
			okKind = true
			desc = kindNames[want]
		}
		c.check(okType && okKind, "kind-table", name, ta.Pos(), "arm "+desc+": Convert("+g.Name()+") and assertion to "+types.TypeString(ta.AssertedType, nil)+" agree",
			"kind arm / Convert target ("+g.Name()+" = "+types.TypeString(gt, nil)+") / asserted type "+types.TypeString(ta.AssertedType, nil)+" disagree (the assertion would panic or the default would be converted through the wrong type)")
	}
	if n == 0 {
		c.bad("kind-table", short, reg.Pos(), "no Convert+assert registration arms found")
	}
}

func c12Narrowing(c *Ctx, val *ssa.Function) {
	w := c.W
	wo := w.fn("sources/flag", "willOverflow")
	if !c.need(wo != nil, "sources/flag.willOverflow") {
		return
	}
	c.analysed(relName(wo))
	// the closure with the Convert
	var closure *ssa.Function
	for _, a := range val.AnonFuncs {
		for _, i := range allInstrs(a) {
			if ci, ok := i.(*ssa.Call); ok && calleeFullName(ci) == "(reflect.Value).Convert" {
				closure = a
			}
		}
	}
	if closure == nil {
		c.bad("narrowing-guard", "flag#convert", val.Pos(), "no reflect conversion found in the Visit callback")
		return
	}
	for _, i := range allInstrs(closure) {
		ci, ok := i.(*ssa.Call)
		if !ok || calleeFullName(ci) != "(reflect.Value).Convert" {
			continue
		}
		okG := false
		for _, ec := range condsDominating(ci.Block()) {
			if call, ok := ec.Cond.(*ssa.Call); ok && !ec.Val && staticCallee(call) == origin(wo) && call.Call.Args[0] == ci.Call.Args[0] {
				okG = true
			}
		}
		if !okG {
			// a pointer-to-pointer conversion (value held by pointer, field of a named type) cannot narrow
			for _, ec := range condsDominating(ci.Block()) {
				if b, ok := ec.Cond.(*ssa.BinOp); ok && ec.Val && b.Op == token.EQL {
					if k, ok := constInt(b.Y); ok && k == kPtr {
						if kc, ok := b.X.(*ssa.Call); ok && calleeFullName(kc) == "(reflect.Value).Kind" && kc.Call.Args[0] == ci.Call.Args[0] {
							okG = true
						}
					}
				}
			}
		}
		c.check(okG, "narrowing-guard", "flag#convert", ci.Pos(), "Convert to the field's type only after willOverflow(value, target) returned false (or a pointer-to-pointer conversion under Kind()==Ptr, which cannot narrow)", "the conversion to the (possibly narrower) field type is not dominated by the overflow test of the same value")
	}
	// coverage of willOverflow
	pb := &predBuilder{}
	atom := "(reflect.Value).Kind(" + wo.Params[0].Name() + ")"
	table := []struct {
		m     string
		kinds []int64
	}{
		{"(reflect.Value).OverflowInt", []int64{kInt, kInt8, kInt16, kInt32, kInt64}},
		{"(reflect.Value).OverflowUint", []int64{kUint, kUint8, kUint16, kUint32, kUint64}},
		{"(reflect.Value).OverflowFloat", []int64{kFloat32, kFloat64}},
		{"(reflect.Value).OverflowComplex", []int64{kComplex64, kComplex128}},
	}
	for _, t := range table {
		var call *ssa.Call
		for _, i := range allInstrs(wo) {
			if ci, ok := i.(*ssa.Call); ok && calleeFullName(ci) == t.m {
				call = ci
			}
		}
		if call == nil {
			c.bad("narrowing-guard", "willOverflow#"+t.m, wo.Pos(), "willOverflow never calls %s", t.m)
			continue
		}
		ks := kindsWhere(pb.pathCond(wo.Blocks[0], call.Block()), atom)
		okK := true
		for _, kk := range t.kinds {
			if !ks[kk] {
				okK = false
			}
		}
		// receiver is the target, argument derives from the value
		recvOK := call.Call.Args[0] == ssa.Value(wo.Params[1])
		c.check(okK && recvOK, "narrowing-guard", "willOverflow#"+t.m[strings.LastIndex(t.m, ".")+1:], call.Pos(), t.m+" covers "+kindSetString(ks)+" on the target", t.m+" is reached only for "+kindSetString(ks)+": a kind of this class is never range-checked")
	}
	// the float32 path: the flag holds a float64, and the decimal the user typed is in range for a float32 leaf
	// exactly when it rounds to a finite float32 (D37). Where willOverflow branches on the target being a float32,
	// the verdict on that branch must be "v is finite and float32(v) is infinite" - with the narrowing conversion
	// actually performed.
	for _, b := range wo.Blocks {
		iff, ok := b.Instrs[len(b.Instrs)-1].(*ssa.If)
		if !ok {
			continue
		}
		cmp, ok := iff.Cond.(*ssa.BinOp)
		if !ok || cmp.Op != token.EQL {
			continue
		}
		kc, ok := cmp.X.(*ssa.Call)
		if !ok || calleeFullName(kc) != "(reflect.Value).Kind" || kc.Call.Args[0] != ssa.Value(wo.Params[1]) {
			continue
		}
		if kv, isC := constInt(cmp.Y); !isC || kv != kFloat32 {
			continue
		}
		arm := b.Succs[0]
		isValFloat := func(v ssa.Value) bool {
			cc, ok := v.(*ssa.Call)
			return ok && calleeFullName(cc) == "(reflect.Value).Float" && cc.Call.Args[0] == ssa.Value(wo.Params[0])
		}
		pbf := &predBuilder{name: func(v ssa.Value) string {
			cc, ok := v.(*ssa.Call)
			if !ok || calleeFullName(cc) != "math.IsInf" {
				return ""
			}
			a := cc.Call.Args[0]
			if isValFloat(a) {
				return "vInf"
			}
			// float64(float32(v))
			if c1, ok := a.(*ssa.Convert); ok {
				if c2, ok := c1.X.(*ssa.Convert); ok && types.TypeString(c2.Type(), nil) == "float32" && isValFloat(c2.X) {
					return "narrowInf"
				}
				if types.TypeString(c1.Type(), nil) == "float32" && isValFloat(c1.X) {
					return "narrowInf"
				}
			}
			return ""
		}}
		var res formula = fConst{false}
		nr := 0
		for _, r := range returnsOf(wo) {
			if r.Block() != arm && !arm.Dominates(r.Block()) {
				continue
			}
			nr++
			res = mkOr(res, mkAnd(pbf.pathCond(arm, r.Block()), pbf.valueFormula(retVals(r)[0], 0)))
		}
		if nr == 0 {
			continue
		}
		c.checkTable("narrowing-guard", "willOverflow#float32-by-rounding", kc.Pos(), res, []string{"vInf", "narrowInf"}, nil, "!IsInf(v) && IsInf(float32(v))", func(e env) bool {
			return !e.B["vInf"] && e.B["narrowInf"]
		})
	}
	// ... and OverflowFloat (which compares the float64 with MaxFloat32) is not what decides for a float32 target
	for _, i := range allInstrs(wo) {
		of, ok := i.(*ssa.Call)
		if !ok || calleeFullName(of) != "(reflect.Value).OverflowFloat" {
			continue
		}
		excl := false
		for _, ec := range condsDominating(of.Block()) {
			cmp, ok := ec.Cond.(*ssa.BinOp)
			if !ok || !((cmp.Op == token.EQL && !ec.Val) || (cmp.Op == token.NEQ && ec.Val)) {
				continue
			}
			if kc, ok := cmp.X.(*ssa.Call); ok && calleeFullName(kc) == "(reflect.Value).Kind" && kc.Call.Args[0] == ssa.Value(wo.Params[1]) {
				if kv, isC := constInt(cmp.Y); isC && kv == kFloat32 {
					excl = true
				}
			}
		}
		c.check(excl, "narrowing-guard", "willOverflow#float32-not-by-OverflowFloat", of.Pos(), "OverflowFloat decides only for float64 targets", "a float32 target is range-checked with OverflowFloat on the float64 the flag parsed: the shortest text of MaxFloat32 (3.4028235e+38, the advertised default of such a leaf) is slightly above MaxFloat32 as a float64 and is rejected")
	}
	// error-not-value
	okE := false
	for _, r := range returnsOf(val) {
		rv := retVals(r)
		if ld, ok := rv[1].(*ssa.UnOp); ok && ld.Op == token.MUL {
			if _, ok := ld.X.(*ssa.Alloc); ok && knownNil(r.Block(), rv[1], false) {
				okE = true
			}
		}
	}
	// the ReverseTranslate return must be on the setErr == nil branch
	for _, r := range returnsOf(val) {
		rv := retVals(r)
		if e, ok := rv[0].(*ssa.Extract); ok {
			if call, ok := e.Tuple.(*ssa.Call); ok && strings.HasSuffix(calleeFullName(call), ".ReverseTranslate") {
				guarded := false
				for _, ec := range condsDominating(r.Block()) {
					if nv, nilWhenTrue, ok := nilCheckOf(ec.Cond); ok && nilWhenTrue == ec.Val && isErrorType(nv.Type()) {
						guarded = true
					}
				}
				if !guarded {
					okE = false
				}
			}
		}
	}
	c.check(okE, "error-not-value", "flag", val.Pos(), "a recorded overflow is returned as the error; the reverse-translated value is returned only when none was recorded", "an overflow error is not returned, or the value is returned alongside it")
}

func c12Accumulate(c *Ctx, f *ssa.Function, typ string) {
	fDef := c.W.field("sources/flag/flaghelper", typ, "defaulted")
	// parse call
	var parse *ssa.Call
	for _, i := range allInstrs(f) {
		if ci, ok := i.(*ssa.Call); ok && strings.HasPrefix(calleeFullName(ci), modPath+"/parse.") {
			parse = ci
		}
	}
	if parse == nil || fDef == nil {
		c.bad("accumulate", typ, f.Pos(), "helper Set does not call a parse function / has no defaulted mark")
		return
	}
	var perr ssa.Value
	for _, r := range *parse.Referrers() {
		if e, ok := r.(*ssa.Extract); ok && e.Index == 1 {
			perr = e
		}
	}
	okErr := false
	for _, r := range returnsOf(f) {
		if perr != nil && retVals(r)[0] == perr && knownNil(r.Block(), perr, false) {
			okErr = true
		}
	}
	// defaulted = false store, under a condition involving defaulted == true
	okClear, okReplaceRet := false, false
	var clear *ssa.Store
	for _, i := range allInstrs(f) {
		st, ok := i.(*ssa.Store)
		if !ok {
			continue
		}
		if fa, ok := st.Addr.(*ssa.FieldAddr); ok && sameField(fieldVar(fa.X.Type(), fa.Field), fDef) {
			if cst, ok := st.Val.(*ssa.Const); ok && cst.Value != nil && cst.Value.ExactString() == "false" {
				clear = st
			}
		}
	}
	if clear != nil {
		pb := &predBuilder{name: func(v ssa.Value) string {
			if _, ok := isFieldLoad(v, fDef); ok {
				return "defaulted"
			}
			return ""
		}}
		g := pb.pathCond(parse.Block(), clear.Block())
		// whenever defaulted is true (and parsing succeeded) the replace branch is taken
		_, counter := forAll(g, nil, func(e env, fv bool) bool {
			return !e.B["defaulted"] || fv || !parseOK(e)
		})
		fb, fi := map[string]bool{}, map[string]bool{}
		atomsOf(g, fb, fi)
		okClear = counter == "" && fb["defaulted"]
		// the replace branch returns nil without appending
		for _, r := range returnsOf(f) {
			if clear.Block() == r.Block() || clear.Block().Dominates(r.Block()) {
				if isNilConst(retVals(r)[0]) {
					okReplaceRet = true
				}
				for _, j := range allInstrs(f) {
					if ci, ok := j.(*ssa.Call); ok && calleeFullName(ci) == "builtin.append" && (clear.Block() == ci.Block() || clear.Block().Dominates(ci.Block())) {
						okReplaceRet = false
					}
				}
			}
		}
	}
	// accumulate branch: an append, or a map update inside a range loop, not dominated by the clear block
	okAcc := false
	for _, i := range allInstrs(f) {
		switch x := i.(type) {
		case *ssa.Call:
			if calleeFullName(x) == "builtin.append" && clear != nil && !clear.Block().Dominates(x.Block()) && clear.Block() != x.Block() {
				okAcc = true
			}
		case *ssa.MapUpdate:
			if inLoop(x) && clear != nil && !clear.Block().Dominates(x.Block()) {
				okAcc = true
			}
		}
	}
	c.check(okErr && okClear && okReplaceRet && okAcc, "accumulate", typ, f.Pos(),
		"parse error returned; first Set replaces and clears `defaulted`; later Sets append/merge",
		"helper Set breaks the accumulate discipline (error="+boolStr(okErr)+" clears-under-defaulted="+boolStr(okClear)+" replace-returns="+boolStr(okReplaceRet)+" accumulates="+boolStr(okAcc)+")")
}

// c12WritesThrough: the pflag source reads a helper-backed flag's value through
// the pointer it handed to the helper's constructor (it stores that same pointer
// in its flag-value table), so those helpers' Set must write through the
// constructor pointer and never re-bind it; a helper that re-binds keeps its
// accumulated value to itself and the source sees only the first occurrence.
func c12WritesThrough(c *Ctx) {
	w := c.W
	reg := w.fn("sources/pflag", "Set.registerFlags")
	if !c.need(reg != nil, "sources/pflag.Set.registerFlags") {
		return
	}
	seen := map[string]bool{}
	for _, i := range allInstrs(reg) {
		call, ok := i.(*ssa.Call)
		if !ok {
			continue
		}
		ctor := staticCallee(call)
		if ctor == nil || w.pkgRelOfFn(ctor) != "sources/flag/flaghelper" || !strings.HasPrefix(ctor.Name(), "New") || len(ctor.Params) != 1 {
			continue
		}
		if _, isPtr := ctor.Params[0].Type().Underlying().(*types.Pointer); !isPtr {
			continue
		}
		tn := namedTypeName(ctor.Signature.Results().At(0).Type())
		if seen[tn] {
			continue
		}
		seen[tn] = true
		// the field the constructor stores its parameter in
		var fld *types.Var
		for _, ci := range allInstrs(ctor) {
			if st, ok := ci.(*ssa.Store); ok && st.Val == ssa.Value(ctor.Params[0]) {
				if fa, ok := st.Addr.(*ssa.FieldAddr); ok {
					fld = fieldVar(fa.X.Type(), fa.Field)
				}
			}
		}
		short := tn[strings.LastIndex(tn, ".")+1:]
		set := w.fn("sources/flag/flaghelper", short+".Set")
		if fld == nil || set == nil {
			c.undecided("helper-writes-through", tn, call.Pos(), "constructor %s does not store its pointer in a field / no Set method found", relName(ctor))
			continue
		}
		c.analysed(relName(set))
		rebinds, through := false, false
		for _, si := range allInstrs(set) {
			st, ok := si.(*ssa.Store)
			if !ok {
				continue
			}
			if fa, ok := st.Addr.(*ssa.FieldAddr); ok && sameField(fieldVar(fa.X.Type(), fa.Field), fld) {
				rebinds = true
			}
			if _, ok := isFieldLoad(st.Addr, fld); ok {
				through = true
			}
		}
		// map helpers accumulate with MapUpdate on the loaded map
		for _, si := range allInstrs(set) {
			if mu, ok := si.(*ssa.MapUpdate); ok {
				if ld, ok := mu.Map.(*ssa.UnOp); ok {
					if _, ok := isFieldLoad(ld.X, fld); ok {
						through = true
					}
				}
			}
		}
		c.check(!rebinds && through, "helper-writes-through", short, set.Pos(), short+".Set stores through the pointer it was constructed with and never re-binds it (the pflag source reads the value through that pointer)",
			short+".Set re-binds its pointer field (or never writes through it): the pflag source, which reads the flag's value through the pointer it passed to "+ctor.Name()+", only sees the first occurrence of a repeated flag")
	}
	if len(seen) == 0 {
		c.bad("helper-writes-through", "pflag", reg.Pos(), "no pointer-backed flag helper is constructed in the pflag registration")
	}
}

// parseOK: in the formula after the parse call, the parse error atom (if
// present) is nil.
func parseOK(e env) bool {
	for k, v := range e.B {
		if strings.HasPrefix(k, "isnil(") && strings.Contains(k, "parse.") && !v {
			return false
		}
	}
	return true
}

// c12VisitClosures applies the visited-flags-written rule to both flag packages (shared with C18).
func c12VisitClosures(c *Ctx) {
	w := c.W
	for _, pk := range []struct {
		rel, fs string
		std     bool
	}{{"sources/flag", "(*flag.FlagSet)", true}, {"sources/pflag", "(*github.com/spf13/pflag.FlagSet)", false}} {
		val := w.fn(pk.rel, "Set.Value")
		if val == nil {
			continue
		}
		short := pk.rel[strings.LastIndex(pk.rel, "/")+1:]
		for _, v := range callsTo(val, pk.fs+".Visit") {
			if mc, ok := v.Common().Args[len(v.Common().Args)-1].(*ssa.MakeClosure); ok {
				c12Closure(c, mc.Fn.(*ssa.Function), short, pk.std)
			}
		}
	}
}

// c12NameRecorded: in the registration loop of both flag packages the
// name->field map entry is written on every path from the computation of the
// flag name to the end of that iteration.
func c12NameRecorded(c *Ctx, rule string) {
	w := c.W
	for _, rel := range []string{"sources/flag", "sources/pflag"} {
		reg := w.fn(rel, "Set.registerFlags")
		mk := w.fn(rel, "Set.mkname")
		if !c.need(reg != nil && mk != nil, rel+".Set.registerFlags / mkname") {
			continue
		}
		c.analysed(relName(reg))
		for _, ci := range callsToFn(reg, mk) {
			call := ci.(*ssa.Call)
			// the loop header
			var hdr *ssa.BasicBlock
			for b := call.Block(); b != nil; b = b.Idom() {
				for _, p := range b.Preds {
					if b.Dominates(p) && inLoopBody(b, call.Block()) {
						hdr = b
					}
				}
				if hdr != nil {
					break
				}
			}
			if hdr == nil {
				c.undecided(rule, rel, call.Pos(), "the flag name is not computed inside a loop")
				continue
			}
			isRecord := func(i ssa.Instruction) bool {
				mu, ok := i.(*ssa.MapUpdate)
				if !ok {
					return false
				}
				if mu.Key != ssa.Value(call) {
					// ... or the name read back from the slot it was just stored in (names[i] = mkname(sf); m[names[i]] = ...)
					ld, isLd := mu.Key.(*ssa.UnOp)
					if !isLd || ld.Op != token.MUL {
						return false
					}
					stored := false
					for _, r := range *call.Referrers() {
						if st, isSt := r.(*ssa.Store); isSt && st.Val == ssa.Value(call) && st.Block() == ld.Block() && sameValue(st.Addr, ld.X) {
							stored = true
						}
					}
					if !stored {
						return false
					}
				}
				_, isFld := loadOfTypeField(mu.Map, rel+".Set", "flagFieldName")
				return isFld
			}
			hit := reachAvoid(reg, call, func(i ssa.Instruction) bool { return i == hdr.Instrs[0] || isReturn(i) && retIsNilErr(i) }, isRecord)
			c.check(hit == nil, rule, rel, call.Pos(), "flagFieldName[name] is written on every path of the iteration after mkname", "an iteration can end (e.g. through the 'flag already exists' skip) without recording the flag name in flagFieldName: a flag the application registered itself is ignored by Value and lower layers win")
		}
	}
}

func retIsNilErr(i ssa.Instruction) bool {
	r, ok := i.(*ssa.Return)
	if !ok || len(r.Results) == 0 {
		return ok
	}
	return isNilConst(r.Results[len(r.Results)-1])
}

// c12PflagTypedRegistration: the pflag source has no overflow helper of its own - it relies on pflag's typed
// flags to reject out-of-range input - so the template value asserted to the arm's type must reach the
// registration method without a widening conversion (float32 registered through Float64P accepts 1e40 and the
// later Convert to float32 yields +Inf). The one reviewed exception is uintptr, for which pflag has no typed flag.
func c12PflagTypedRegistration(c *Ctx) {
	w := c.W
	reg := w.fn("sources/pflag", "Set.registerFlags")
	if !c.need(reg != nil, "sources/pflag.Set.registerFlags") {
		return
	}
	n := 0
	for _, i := range allInstrs(reg) {
		ta, ok := i.(*ssa.TypeAssert)
		if !ok || ta.CommaOk {
			continue
		}
		b, ok := ta.AssertedType.Underlying().(*types.Basic)
		if !ok || b.Info()&types.IsNumeric == 0 {
			continue
		}
		for _, r := range *ta.Referrers() {
			cv, ok := r.(*ssa.Convert)
			if !ok {
				continue
			}
			n++
			if b.Kind() == types.Uintptr {
				c.okTrivial("typed-registration", "pflag#uintptr", cv.Pos(), "uintptr is registered as a 64-bit unsigned flag (pflag has no uintptr flag; reviewed)")
				continue
			}
			c.bad("typed-registration", "pflag#"+b.Name(), cv.Pos(), "the %s template value is converted to %s before registration: the flag is registered with a wider type than the leaf, pflag's own range check no longer applies and an out-of-range value is silently narrowed afterwards", b.Name(), types.TypeString(cv.Type(), nil))
		}
	}
	if n <= 1 {
		c.ok("typed-registration", "pflag", reg.Pos(), "numeric template values reach their typed pflag registration method without a widening conversion")
	}
}

// c12ParseOnce: Value parses the flag set only when the set itself says it has not been parsed yet (the owner of
// a command-line flag set may have parsed it already; parsing again makes accumulating flags double).
func c12ParseOnce(c *Ctx) {
	w := c.W
	for _, rel := range []string{"sources/flag", "sources/pflag"} {
		val := w.fn(rel, "Set.Value")
		parse := w.fn(rel, "Set.parse")
		if !c.need(val != nil && parse != nil, rel+".Set.Value / parse") {
			continue
		}
		n := 0
		for _, ci := range callsToFn(val, parse) {
			n++
			call := ci.(*ssa.Call)
			okG := false
			for _, ec := range condsDominating(call.Block()) {
				cc, ok := ec.Cond.(*ssa.Call)
				if !ok || ec.Val || !strings.HasSuffix(calleeFullName(cc), "FlagSet).Parsed") {
					continue
				}
				if _, isFld := loadOfTypeField(callArgs(cc)[0], rel+".Set", "Flags"); isFld {
					okG = true
				}
			}
			c.check(okG, "parse-once", rel, call.Pos(), "the flag set is parsed only under !s.Flags.Parsed()", "Value parses the flag set without asking the set whether it was parsed already (a private flag does not know that the set's owner called Parse): repeated slice/map/set flags are accumulated twice")
		}
		if n == 0 {
			c.bad("parse-once", rel, val.Pos(), "Value never parses the flag set")
		}
	}
}

// c12DefaultNameConfig: both flag packages hand out their default name configuration as a fresh value holding the
// documented casings (kebab-case tags). A pointer to a package-level variable is shared mutable state: one caller
// customising "its" copy renames the flags of every later Set built with the default.
func c12DefaultNameConfig(c *Ctx, rule string) {
	w := c.W
	for _, rel := range []string{"sources/flag", "sources/pflag"} {
		f := w.fn(rel, "DefaultFlagNameConfig")
		if !c.need(f != nil, rel+".DefaultFlagNameConfig") {
			continue
		}
		c.analysed(relName(f))
		okAll, why := true, ""
		n := 0
		for _, r := range returnsOf(f) {
			n++
			al, ok := retVals(r)[0].(*ssa.Alloc)
			if !ok || !al.Heap || al.Parent() != f {
				okAll, why = false, "returns "+canon(retVals(r)[0])+", which is not a value allocated by this call"
				continue
			}
			for fld, want := range map[string]string{"FieldNameEncodeCasing": "EncodeUpperCamelCase", "TagEncodeCasing": "EncodeKebabCase"} {
				lv := litField(al, fld)
				if lv != nil {
					lv = stripConv(lv)
				}
				if ct, ok := lv.(*ssa.ChangeType); ok {
					lv = ct.X
				}
				fv, _ := lv.(*ssa.Function)
				if fv == nil || fv.Name() != want {
					okAll, why = false, fld+" is not caseconversion."+want
				}
			}
		}
		c.check(okAll && n > 0, rule, rel, f.Pos(), "a fresh NameConfig{EncodeUpperCamelCase, EncodeKebabCase} per call", "DefaultFlagNameConfig "+why+": the default name configuration is shared between callers (customising one copy renames the flags of every later default Set) or no longer kebab-cases")
	}
}

// c12TypeArmTable: in the arms of the registration switch that compare the field's reflect.Type with a
// package-level type variable (`case int64SliceType:`), every unchecked type assertion of the field's address or
// value names that very type (`*[]int64`): any other assertion panics while the flags are being registered.
func c12TypeArmTable(c *Ctx, reg *ssa.Function, short, rule string) {
	w := c.W
	for _, i := range allInstrs(reg) {
		ta, ok := i.(*ssa.TypeAssert)
		if !ok || ta.CommaOk {
			continue
		}
		// the arm: the innermost dominating `x == *global` (true edge) on reflect.Type values
		var g *ssa.Global
		for _, ec := range condsDominating(ta.Block()) {
			b, ok := ec.Cond.(*ssa.BinOp)
			if !ok || b.Op != token.EQL || !ec.Val {
				continue
			}
			for _, side := range []ssa.Value{b.X, b.Y} {
				if ld, ok := side.(*ssa.UnOp); ok && ld.Op == token.MUL {
					if gg, ok := ld.X.(*ssa.Global); ok && types.TypeString(gg.Type(), nil) == "*reflect.Type" {
						if g == nil {
							g = gg
						}
					}
				}
			}
			if g != nil {
				break
			}
		}
		if g == nil {
			continue
		}
		// only assertions of the field itself: Interface() of the field value or of its address
		ic, ok := ta.X.(*ssa.Call)
		if !ok || calleeFullName(ic) != "(reflect.Value).Interface" {
			if ph, isPhi := ta.X.(*ssa.Phi); isPhi {
				_ = ph
			}
			if !derivesAny(ta.X, func(v ssa.Value) bool {
				cc, ok := v.(*ssa.Call)
				return ok && calleeFullName(cc) == "(reflect.Value).Interface"
			}, nil) {
				continue
			}
		}
		gt := globalInitType(w, g)
		name := short + "#arm-" + g.Name() + "#" + types.TypeString(ta.AssertedType, nil)
		if gt == nil {
			continue // not a type this rule can resolve (kept for the kinds the kind table covers)
		}
		okT := types.Identical(gt, ta.AssertedType) || types.Identical(types.NewPointer(gt), ta.AssertedType)
		c.check(okT, rule, name, ta.Pos(), "arm "+g.Name()+" ("+types.TypeString(gt, nil)+"): the field is asserted to that type (or its pointer)",
			"in the arm for "+g.Name()+" = "+types.TypeString(gt, nil)+" the field is asserted to "+types.TypeString(ta.AssertedType, nil)+": the unchecked assertion panics while the flags are registered, whatever the arguments")
	}
}

// c12PtrValuedFlagArm (sibling agreement): a leaf of slice or map kind keeps its own (nil-able) type after
// pointerification while its flag helper holds a pointer to it (text-unmarshalable net.IP, *[]string): both Visit
// callbacks need the arm "the flag's value is a pointer to the field's type -> set the field from its pointee"
// (D36: the std flag source lacked it and no net.IP flag could ever be set).
func c12PtrValuedFlagArm(c *Ctx, rule string) {
	w := c.W
	for _, rel := range []string{"sources/flag", "sources/pflag"} {
		val := w.fn(rel, "Set.Value")
		if !c.need(val != nil, rel+".Set.Value") {
			continue
		}
		found := false
		var pos token.Pos = val.Pos()
		for _, cl := range val.AnonFuncs {
			for _, i := range allInstrs(cl) {
				set, ok := i.(*ssa.Call)
				if !ok || calleeFullName(set) != "(reflect.Value).Set" {
					continue
				}
				el, ok := set.Call.Args[1].(*ssa.Call)
				if !ok || calleeFullName(el) != "(reflect.Value).Elem" {
					continue
				}
				ff, fv := set.Call.Args[0], el.Call.Args[0]
				typeOf := func(v ssa.Value, of ssa.Value) bool {
					cc, ok := v.(*ssa.Call)
					return ok && calleeFullName(cc) == "(reflect.Value).Type" && sameValue(cc.Call.Args[0], of)
				}
				ptrToField := func(v ssa.Value) bool {
					cc, ok := v.(*ssa.Call)
					if !ok {
						return false
					}
					switch calleeFullName(cc) {
					case "reflect.PtrTo", "reflect.PointerTo":
						return typeOf(cc.Call.Args[0], ff)
					case "(reflect.Value).Type":
						ad, ok := cc.Call.Args[0].(*ssa.Call)
						return ok && calleeFullName(ad) == "(reflect.Value).Addr" && sameValue(ad.Call.Args[0], ff)
					}
					return false
				}
				for _, ec := range condsDominating(set.Block()) {
					b, ok := ec.Cond.(*ssa.BinOp)
					if !ok || b.Op != token.EQL || !ec.Val {
						continue
					}
					if (typeOf(b.X, fv) && ptrToField(b.Y)) || (typeOf(b.Y, fv) && ptrToField(b.X)) {
						found, pos = true, set.Pos()
					}
				}
			}
		}
		c.check(found, rule, rel, pos, "a flag whose value is a pointer to the field's own type sets the field from its pointee", "the Visit callback has no arm for a flag whose value is a pointer to the field's own (non-pointerified) type: a text-unmarshalable leaf of slice or map kind (net.IP) given on the command line is rejected as 'not convertible' and can never be set")
	}
}

// globalStringArray: the elements of a package-level array of strings, when every element is stored a constant by the
// package initialiser and nothing else writes the array.
func globalStringArray(w *World, g *ssa.Global) []string {
	pt, ok := g.Type().(*types.Pointer)
	if !ok {
		return nil
	}
	arr, ok := pt.Elem().Underlying().(*types.Array)
	if !ok || arr.Len() > 16 {
		return nil
	}
	out := make([]string, arr.Len())
	set := 0
	for _, f := range w.Funcs {
		isInit := f.Name() == "init" && f.Pkg == g.Pkg
		for _, i := range allInstrs(f) {
			switch x := i.(type) {
			case *ssa.IndexAddr:
				if x.X != ssa.Value(g) {
					continue
				}
				for _, r := range *x.Referrers() {
					st, isStore := r.(*ssa.Store)
					if !isStore || st.Addr != ssa.Value(x) {
						continue
					}
					k, okK := constInt(x.Index)
					sv, okS := constString(st.Val)
					if !isInit || !okK || !okS || k < 0 || k >= arr.Len() {
						return nil
					}
					out[k] = sv
					set++
				}
			case *ssa.Store:
				if x.Addr == ssa.Value(g) {
					return nil
				}
			}
		}
	}
	if set != int(arr.Len()) {
		return nil
	}
	return out
}
