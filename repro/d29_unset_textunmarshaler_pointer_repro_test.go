package transform

import (
	"net"
	"reflect"
	"testing"
	"time"
)

func TestO12UnsetTextUnmarshalerPointer(t *testing.T) {
	type C struct {
		T  *time.Time
		IP *net.IP
		V  time.Time
	}
	tr := NewTransformer(reflect.TypeOf(C{}), &TextUnmarshalerMangler{})
	tt, err := tr.Translate()
	if err != nil {
		t.Fatal(err)
	}
	v := tt
	out, err := tr.ReverseTranslate(v)
	if err != nil {
		t.Fatalf("reverse of the empty value: %v", err)
	}
	c := out.Interface().(C)
	if c.T != nil || c.IP != nil {
		t.Fatalf("not unset: %+v", c)
	}
}
