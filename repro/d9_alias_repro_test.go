package sourcewrap_test

// D9: alias mangler reaching non-pointerified fields through slice recursion.
// Copy into /repo/sourcewrap to run.

import (
	"context"
	"testing"

	"github.com/vimeo/dials"
	"github.com/vimeo/dials/sourcewrap"
	"github.com/vimeo/dials/decoders/json"
	"github.com/vimeo/dials/sources/static"
	"github.com/vimeo/dials/transform"
)

func TestReproD9AliasInSliceElem(t *testing.T) {
	type E struct {
		A int `dials:"a" dialsalias:"b"`
	}
	type C struct {
		Es []E `dials:"es"`
	}
	dec := sourcewrap.NewTransformingDecoder(&json.Decoder{}, transform.NewAliasMangler("dials"))
	d, err := dials.Config(context.Background(), &C{}, &static.StringSource{Data: `{"es":[{"a":1},{"b":2}]}`, Decoder: dec})
	if err != nil {
		t.Fatal(err)
	}
	if len(d.View().Es) != 2 || d.View().Es[0].A != 1 || d.View().Es[1].A != 2 {
		t.Fatalf("got %+v", d.View())
	}
	_, err = dials.Config(context.Background(), &C{}, &static.StringSource{Data: `{"es":[{"a":1,"b":2}]}`, Decoder: dec})
	if err == nil {
		t.Fatalf("both names set must be an error")
	}
}
