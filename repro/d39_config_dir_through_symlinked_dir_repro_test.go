package file

import (
	"context"
	"os"
	"path/filepath"
	"testing"
	"time"

	"github.com/vimeo/dials"
	"github.com/vimeo/dials/decoders/json"
)

type o59cfg struct{ N int }

func o59wait(t *testing.T, d *dials.Dials[o59cfg], want int) {
	t.Helper()
	deadline := time.Now().Add(3 * time.Second)
	for time.Now().Before(deadline) {
		if d.View().N == want {
			return
		}
		time.Sleep(5 * time.Millisecond)
	}
	t.Fatalf("view did not converge to N=%d (still %d)", want, d.View().N)
}

// The config's directory is reached through a symlinked directory (root/link -> root/real).
func TestO59ConfigDirThroughSymlinkedDir(t *testing.T) {
	root := t.TempDir()
	root, _ = filepath.EvalSymlinks(root)
	realDir := filepath.Join(root, "real")
	if err := os.Mkdir(realDir, 0o700); err != nil {
		t.Fatal(err)
	}
	link := filepath.Join(root, "link")
	if err := os.Symlink("real", link); err != nil {
		t.Fatal(err)
	}
	cfgPath := filepath.Join(link, "c.json")
	if err := os.WriteFile(cfgPath, []byte(`{"N":1}`), 0o600); err != nil {
		t.Fatal(err)
	}
	ws, err := NewWatchingSource(cfgPath, &json.Decoder{})
	if err != nil {
		t.Fatal(err)
	}
	defer ws.WG.Wait()
	ctx, cancel := context.WithCancel(context.Background())
	defer cancel()
	d, err := dials.Config(ctx, &o59cfg{}, ws)
	if err != nil {
		t.Fatal(err)
	}
	o59wait(t, d, 1)

	// step 1: atomically replace the regular file with a symlink into another directory
	other := filepath.Join(root, "other")
	if err := os.Mkdir(other, 0o700); err != nil {
		t.Fatal(err)
	}
	if err := os.WriteFile(filepath.Join(other, "c.json"), []byte(`{"N":2}`), 0o600); err != nil {
		t.Fatal(err)
	}
	tmpLink := filepath.Join(realDir, "c.json.lnk")
	if err := os.Symlink(filepath.Join(other, "c.json"), tmpLink); err != nil {
		t.Fatal(err)
	}
	if err := os.Rename(tmpLink, filepath.Join(realDir, "c.json")); err != nil {
		t.Fatal(err)
	}
	o59wait(t, d, 2)
	time.Sleep(100 * time.Millisecond)

	// step 2: rename a regular file over the config path
	tmp := filepath.Join(realDir, "c.json.tmp")
	if err := os.WriteFile(tmp, []byte(`{"N":3}`), 0o600); err != nil {
		t.Fatal(err)
	}
	if err := os.Rename(tmp, filepath.Join(realDir, "c.json")); err != nil {
		t.Fatal(err)
	}
	o59wait(t, d, 3)
}
