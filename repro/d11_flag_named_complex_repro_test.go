package flag

// D11: a flag for a field of a named complex type panicked in reflect.Convert
// (the complex helpers hand out a *complex64). Copy into /repo/sources/flag.

import (
	"context"
	"testing"

	"github.com/vimeo/dials"
)

type reproD11C complex64
type reproD11I int16

func TestReproD11NamedComplexFlag(t *testing.T) {
	type C struct {
		C64 reproD11C
		I   reproD11I
	}
	s, err := NewSetWithArgs(DefaultFlagNameConfig(), &C{}, []string{"--c64=1+2i", "--i=5"})
	if err != nil {
		t.Fatal(err)
	}
	d, err := dials.Config(context.Background(), &C{}, s)
	if err != nil {
		t.Fatal(err)
	}
	if d.View().C64 != reproD11C(complex(1, 2)) || d.View().I != 5 {
		t.Fatalf("got %+v", d.View())
	}
}
