package yaml

import (
	"context"
	"testing"

	"github.com/vimeo/dials"
	"github.com/vimeo/dials/sources/static"
	"github.com/vimeo/dials/sourcewrap"
	"github.com/vimeo/dials/transform"
)

type O32Inner struct {
	X     int
	cache int
	Y     string
}

type o32C struct {
	L []O32Inner
	A int
}

func TestO32SliceElemUnexportedFlatten(t *testing.T) {
	doc := "l:\n  - x: 1\n    y: a\na: 4\n"
	d, err := dials.Config(context.Background(), &o32C{}, &static.StringSource{Data: doc, Decoder: &Decoder{FlattenAnonymous: true}})
	if err != nil {
		t.Fatalf("Config: %v", err)
	}
	c := d.View()
	if len(c.L) != 1 || c.L[0].X != 1 || c.L[0].Y != "a" || c.A != 4 {
		t.Fatalf("got %+v", c)
	}
}

func TestO32SliceElemUnexportedAlias(t *testing.T) {
	doc := "l:\n  - x: 1\n    y: a\na: 4\n"
	dec := sourcewrap.NewTransformingDecoder(&Decoder{}, transform.NewAliasMangler("dials"))
	d, err := dials.Config(context.Background(), &o32C{}, &static.StringSource{Data: doc, Decoder: dec})
	if err != nil {
		t.Fatalf("Config: %v", err)
	}
	c := d.View()
	if len(c.L) != 1 || c.L[0].X != 1 || c.L[0].Y != "a" || c.A != 4 {
		t.Fatalf("got %+v", c)
	}
}
