package json

import (
	"context"
	"testing"
	"time"

	"github.com/vimeo/dials"
	"github.com/vimeo/dials/sources/static"
)

func TestO23SliceOfTime(t *testing.T) {
	type C struct {
		Ts  []time.Time
		Arr [1]time.Time
		One time.Time
	}
	doc := `{"Ts":["2020-01-02T03:04:05Z"],"Arr":["2021-01-02T03:04:05Z"],"One":"2022-01-02T03:04:05Z"}`
	d, err := dials.Config(context.Background(), &C{}, &static.StringSource{Data: doc, Decoder: &Decoder{}})
	if err != nil {
		t.Fatalf("Config: %v", err)
	}
	c := d.View()
	if len(c.Ts) != 1 || c.Ts[0].Year() != 2020 || c.Arr[0].Year() != 2021 || c.One.Year() != 2022 {
		t.Fatalf("got %+v", c)
	}
}
