package yaml

import (
	"context"
	"testing"

	"github.com/vimeo/dials"
	"github.com/vimeo/dials/sources/static"
)

type D26Level int
type D26Names []string

type d26cfg struct {
	D26Level
	*D26Names
	A int
}

func TestD26EmbeddedNonStruct(t *testing.T) {
	src := &static.StringSource{Data: "a: 3\nd26level: 4\n", Decoder: &Decoder{FlattenAnonymous: true}}
	d, err := dials.Config(context.Background(), &d26cfg{}, src)
	if err != nil {
		t.Fatal(err)
	}
	if c := d.View(); c.A != 3 || c.D26Level != 4 {
		t.Errorf("%+v", c)
	}
}
