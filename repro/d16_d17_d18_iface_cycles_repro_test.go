package dials

// Reproduction of D16, D17, D18 (property C03: Config and re-stacking terminate
// and succeed for values whose references pass through interface fields). Copy
// into /repo and run  go test -vet=off -count=1 -run 'TestD16|TestProbe4' .
// Before a47363a TestD16 panics (reflect: call of reflect.Value.Elem on struct Value);
// before 88f3906 TestProbe4 overflows the stack in ptrify.pointerifyField; before
// 479074a its second half overflows the stack in overlayInterface.

import (
	"context"
	"reflect"
	"testing"
)

type cyc struct {
	I interface{}
	V int
	W int
}
type cycCfg struct{ Any interface{} }
type staticSrc struct{ v interface{} }

func (s *staticSrc) Value(context.Context, *Type) (reflect.Value, error) {
	return reflect.ValueOf(s.v), nil
}

func TestProbe4(t *testing.T) {
	n := &cyc{V: 1, W: 3}
	n.I = n
	def := &cycCfg{Any: n}
	d, err := Config(context.Background(), def)
	if err != nil {
		t.Fatal(err)
	}
	got := d.View().Any.(*cyc)
	if got == n {
		t.Errorf("not fresh")
	}
	if got.I != interface{}(got) {
		t.Errorf("cycle not preserved: %p vs %v", got, got.I)
	}
	if got.V != 1 {
		t.Errorf("V=%d", got.V)
	}
	// a source on top
	m := &cyc{V: 5}
	m.I = m
	d2, err := Config(context.Background(), def, &staticSrc{&cycCfg{Any: m}})
	if err != nil {
		t.Fatal(err)
	}
	g2 := d2.View().Any.(*cyc)
	t.Logf("%+v self=%v", g2.V, g2.I == interface{}(g2))
	if n.V != 1 || m.V != 5 || n.I != interface{}(n) {
		t.Errorf("inputs modified")
	}
}

type hNode struct{ X, Y int }
type ifaceCfg struct{ Any interface{} }

func TestD16TwoLayersSameIfacePointer(t *testing.T) {
	d, err := Config(context.Background(), &ifaceCfg{}, &staticSrc{&ifaceCfg{Any: &hNode{X: 1}}}, &staticSrc{&ifaceCfg{Any: &hNode{Y: 2}}})
	if err != nil {
		t.Fatal(err)
	}
	if got := d.View().Any.(*hNode); got.Y != 2 {
		t.Errorf("got %+v", got)
	}
}
