package parse

import (
	"reflect"
	"testing"
)

func TestD24TruncatedMapTokens(t *testing.T) {
	for _, in := range []string{`k:"a" "b"`, "a:1\t2", "c d\te:f", `"x" "y":z`} {
		v, err := Map(in, reflect.TypeOf(map[string]string{}))
		if err == nil {
			t.Errorf("Map(%q) = %v, want an error (a token would be silently dropped)", in, v.Interface())
		}
	}
	// still fine
	for _, in := range []string{`k:"a",l:b`, `"":"v"`, `a:`, `a`, ``} {
		if _, err := Map(in, reflect.TypeOf(map[string]string{})); err != nil {
			t.Errorf("Map(%q): %v", in, err)
		}
	}
}
