package env

// D7: named scalar leaf types through the environment source. Copy into
// /repo/sources/env to run.

import (
	"context"
	"os"
	"testing"

	"github.com/vimeo/dials"
)

type reproLevel uint8
type reproLevels []reproLevel

func TestReproD7NamedScalar(t *testing.T) {
	type Inner struct{ L reproLevel }
	type C struct {
		Level reproLevel
		In    Inner
	}
	os.Setenv("LEVEL", "3")
	os.Setenv("IN_L", "4")
	defer os.Unsetenv("LEVEL")
	defer os.Unsetenv("IN_L")
	d, err := dials.Config(context.Background(), &C{}, &Source{})
	if err != nil {
		t.Fatal(err)
	}
	if d.View().Level != 3 || d.View().In.L != 4 {
		t.Fatalf("got %+v", d.View())
	}
}

func TestReproD7NamedSliceElem(t *testing.T) {
	type C struct {
		Ls reproLevels
		M  map[reproLevel]reproLevel
	}
	os.Setenv("LS", "3,4")
	os.Setenv("M", "1:2")
	defer os.Unsetenv("LS")
	defer os.Unsetenv("M")
	d, err := dials.Config(context.Background(), &C{}, &Source{})
	if err != nil {
		t.Fatal(err)
	}
	if len(d.View().Ls) != 2 || d.View().Ls[1] != 4 || d.View().M[1] != 2 {
		t.Fatalf("got %+v", d.View())
	}
}
