package sourcewrap

import (
	"context"
	"reflect"
	"testing"

	"github.com/vimeo/dials"
	"github.com/vimeo/dials/transform"
)

type d28cfg struct {
	A int
	S map[string]struct{}
}

type d28ptrSrc struct{}

func (d28ptrSrc) Value(_ context.Context, t *dials.Type) (reflect.Value, error) {
	v := reflect.New(t.Type())
	seven := 7
	v.Elem().FieldByName("A").Set(reflect.ValueOf(&seven))
	return v, nil // a pointer to the struct, which dials accepts natively
}

func TestD28PointerValuedInnerSource(t *testing.T) {
	ctx := context.Background()
	// natively
	d, err := dials.Config(ctx, &d28cfg{A: 1}, d28ptrSrc{})
	if err != nil || d.View().A != 7 {
		t.Fatalf("native: %v %+v", err, d)
	}
	// wrapped, with and without manglers
	for _, src := range []dials.Source{
		NewTransformingSource(d28ptrSrc{}, &transform.SetSliceMangler{}),
		NewTransformingSource(d28ptrSrc{}),
		NewTransformingSource(&Blank{}, &transform.SetSliceMangler{}),
	} {
		d, err := dials.Config(ctx, &d28cfg{A: 1}, src)
		if err != nil {
			t.Fatalf("wrapped: %v", err)
		}
		if _, isBlank := src.(*transformingSourceWithWatch); !isBlank && d.View().A != 7 {
			t.Errorf("wrapped source %T: A = %d, want 7 (as natively)", src, d.View().A)
		}
	}
}
