package file

import (
	"context"
	"net"
	"os"
	"path/filepath"
	"testing"
	"time"

	"github.com/vimeo/dials"
	"github.com/vimeo/dials/decoders/json"
	"github.com/vimeo/dials/sourcewrap"
	"github.com/vimeo/dials/transform"
)

type o41cfg struct{ Addr net.IP }

func TestO41WrappedFileSourceReportsReverseTranslationError(t *testing.T) {
	dir := t.TempDir()
	cfgPath := filepath.Join(dir, "cfg.json")
	if err := os.WriteFile(cfgPath, []byte(`{"Addr":"1.2.3.4"}`), 0o600); err != nil {
		t.Fatal(err)
	}
	ws, err := NewWatchingSource(cfgPath, &json.Decoder{})
	if err != nil {
		t.Fatal(err)
	}
	defer ws.WG.Wait()
	ctx, cancel := context.WithCancel(context.Background())
	defer cancel()
	errs := make(chan error, 8)
	p := dials.Params[o41cfg]{OnWatchedError: func(_ context.Context, err error, _, _ *o41cfg) { errs <- err }}
	d, err := p.Config(ctx, &o41cfg{}, sourcewrap.NewTransformingSource(ws, &transform.TextUnmarshalerMangler{}))
	if err != nil {
		t.Fatal(err)
	}
	if d.View().Addr.String() != "1.2.3.4" {
		t.Fatalf("initial: %v", d.View().Addr)
	}
	tmp := filepath.Join(dir, "new")
	if err := os.WriteFile(tmp, []byte(`{"Addr":"not-an-ip"}`), 0o600); err != nil {
		t.Fatal(err)
	}
	if err := os.Rename(tmp, cfgPath); err != nil {
		t.Fatal(err)
	}
	select {
	case e := <-errs:
		t.Logf("reported: %v", e)
	case <-time.After(2 * time.Second):
		t.Fatal("the final content is invalid (the address does not parse) and no error was reported")
	}
	if d.View().Addr.String() != "1.2.3.4" {
		t.Fatalf("view changed: %v", d.View().Addr)
	}
}
