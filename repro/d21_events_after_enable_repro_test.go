package dials

import (
	"context"
	"errors"
	"reflect"
	"testing"
)

type d21cfg struct {
	Valid bool
	Foo   string
}

func (c *d21cfg) Verify() error {
	if !c.Valid {
		return errors.New("invalid")
	}
	return nil
}

type d21watcher struct{ wa WatchArgs }

func (w *d21watcher) Value(context.Context, *Type) (reflect.Value, error) {
	return reflect.ValueOf(&d21cfg{Valid: true, Foo: "init"}), nil
}
func (w *d21watcher) Watch(_ context.Context, _ *Type, wa WatchArgs) error { w.wa = wa; return nil }

func TestD21EventsAfterEnable(t *testing.T) {
	ctx, cancel := context.WithCancel(context.Background())
	defer cancel()
	w := &d21watcher{}
	d, err := Params[d21cfg]{DelayInitialVerification: true}.Config(ctx, &d21cfg{}, w)
	if err != nil {
		t.Fatal(err)
	}
	// an invalid update is installed while verification is delayed and parks in Events
	if err := w.wa.BlockingReportNewValue(ctx, reflect.ValueOf(&d21cfg{Valid: false, Foo: "bad"})); err != nil {
		t.Fatal(err)
	}
	// a valid one follows (its Events send is dropped: the buffer is full)
	if err := w.wa.BlockingReportNewValue(ctx, reflect.ValueOf(&d21cfg{Valid: true, Foo: "good"})); err != nil {
		t.Fatal(err)
	}
	if _, _, err := d.EnableVerification(ctx); err != nil {
		t.Fatal(err)
	}
	// verification is active now: whatever Events hands out must verify
	select {
	case c := <-d.Events():
		if vErr := c.Verify(); vErr != nil {
			t.Errorf("Events delivered %+v after EnableVerification succeeded: %v", *c, vErr)
		}
	default:
	}
}
