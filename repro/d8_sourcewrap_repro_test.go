package sourcewrap_test

// D8: updates from a wrapped watching source must be reverse-translated.
// Copy into /repo/sourcewrap to run.

import (
	"context"
	"reflect"
	"testing"
	"time"

	"github.com/vimeo/dials"
	"github.com/vimeo/dials/sourcewrap"
	"github.com/vimeo/dials/transform"
)

type reproInnerWatcher struct {
	wa  dials.WatchArgs
	typ *dials.Type
}

func (r *reproInnerWatcher) Value(_ context.Context, t *dials.Type) (reflect.Value, error) {
	return reflect.New(t.Type()).Elem(), nil
}
func (r *reproInnerWatcher) Watch(_ context.Context, t *dials.Type, wa dials.WatchArgs) error {
	r.wa, r.typ = wa, t
	return nil
}

func TestReproD8WrappedWatcherUpdate(t *testing.T) {
	type C struct {
		A int `dials:"a"`
	}
	ctx, cancel := context.WithCancel(context.Background())
	defer cancel()
	inner := &reproInnerWatcher{}
	src := sourcewrap.NewTransformingSource(inner, &transform.StringCastingMangler{})
	d, err := dials.Config(ctx, &C{}, src)
	if err != nil {
		t.Fatal(err)
	}
	nv := reflect.New(inner.typ.Type())
	seven := "7"
	nv.Elem().Field(0).Set(reflect.ValueOf(&seven))
	if err := inner.wa.ReportNewValue(ctx, nv.Elem()); err != nil {
		t.Fatal(err)
	}
	select {
	case c := <-d.Events():
		if c.A != 7 {
			t.Fatalf("got %+v", c)
		}
	case <-time.After(time.Second):
		t.Fatal("no update")
	}
	eight := "8"
	nv2 := reflect.New(inner.typ.Type())
	nv2.Elem().Field(0).Set(reflect.ValueOf(&eight))
	if err := inner.wa.BlockingReportNewValue(ctx, nv2.Elem()); err != nil {
		t.Fatal(err)
	}
	if d.View().A != 8 {
		t.Fatalf("got %+v", d.View())
	}
}
