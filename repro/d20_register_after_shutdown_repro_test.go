package dials

import (
	"context"
	"reflect"
	"testing"
)

type d20cfg struct{ A int }

type d20watcher struct{ wa WatchArgs }

func (w *d20watcher) Value(context.Context, *Type) (reflect.Value, error) {
	return reflect.ValueOf(&d20cfg{}), nil
}
func (w *d20watcher) Watch(_ context.Context, _ *Type, wa WatchArgs) error { w.wa = wa; return nil }

func TestD20RegisterAfterShutdown(t *testing.T) {
	bad := 0
	for i := 0; i < 200; i++ {
		ctx, cancel := context.WithCancel(context.Background())
		w := &d20watcher{}
		d, err := Config(ctx, &d20cfg{}, w)
		if err != nil {
			t.Fatal(err)
		}
		w.wa.Done(ctx) // the only watcher is done: the monitor exits
		<-d.monDone
		_, ser := d.ViewVersion()
		if unreg := d.RegisterCallback(context.Background(), ser, func(context.Context, *d20cfg, *d20cfg) {}); unreg != nil {
			bad++
		}
		cancel()
	}
	if bad > 0 {
		t.Fatalf("RegisterCallback after shutdown reported success in %d of 200 runs", bad)
	}
}
