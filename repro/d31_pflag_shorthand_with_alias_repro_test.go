package pflag

import (
	"context"
	"testing"

	"github.com/vimeo/dials"
)

func TestO21PflagShorthandWithAlias(t *testing.T) {
	type C struct {
		V int `dials:"verbosity" dialsalias:"loglevel" dialspflagshort:"v"`
		W int `dialspflag:"ww" dialsalias:"old-w"`
	}
	for _, args := range [][]string{{"-v=3"}, {"--verbosity=3"}, {"--loglevel=3"}} {
		s, err := NewSetWithArgs(DefaultFlagNameConfig(), &C{}, args)
		if err != nil {
			t.Fatal(err)
		}
		d, err := dials.Config(context.Background(), &C{}, s)
		if err != nil {
			t.Fatalf("%v: %v", args, err)
		}
		if d.View().V != 3 {
			t.Fatalf("%v: got %+v", args, d.View())
		}
	}
	for _, args := range [][]string{{"--ww=5"}, {"--old-w=5"}} {
		s, err := NewSetWithArgs(DefaultFlagNameConfig(), &C{}, args)
		if err != nil {
			t.Fatal(err)
		}
		d, err := dials.Config(context.Background(), &C{}, s)
		if err != nil {
			t.Fatalf("%v: %v", args, err)
		}
		if d.View().W != 5 {
			t.Fatalf("%v: got %+v", args, d.View())
		}
	}
}
