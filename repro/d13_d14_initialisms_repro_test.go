package caseconversion

// Reproduction of D13 and D14 (property C19, Go-identifier decoding keeps every
// word boundary). Copy into /repo/tagformat/caseconversion and run
//   go test -vet=off -count=1 -run 'TestD13|TestD14' ./tagformat/caseconversion
// On the tree before c964278 TestD13 fails (HTTPS -> [http s], UID -> [ui d]);
// before 1680bd8 TestD14 fails (UserAPIUTF8 -> [user apiutf8]).

import (
	"reflect"
	"strings"
	"testing"
)

func TestD13PrefixInitialisms(t *testing.T) {
	for in, want := range map[string][]string{
		"HTTPSPort": {"https", "port"},
		"UserUID":   {"user", "uid"},
		"UID":       {"uid"},
		"HTTPSQL":   {"http", "sql"}, // only one split into known initialisms
	} {
		got, err := DecodeGoCamelCase(in)
		if err != nil || !reflect.DeepEqual([]string(got), want) {
			t.Errorf("%s: got %v (%v) want %v", in, got, err, want)
		}
	}
}

func TestD14TrailingInitialismRun(t *testing.T) {
	got, err := DecodeGoCamelCase("UserAPIUTF8")
	if want := []string{"user", "api", "utf8"}; err != nil || !reflect.DeepEqual([]string(got), want) {
		t.Errorf("got %v (%v) want %v", got, err, want)
	}
}

// every identifier of three vocabulary items (capitalised words of >= 3 letters
// and the initialisms list) decodes to exactly those items
func TestD13D14Vocabulary(t *testing.T) {
	vocab := append([]string{"User", "File", "Port", "Name", "Max"}, commonInitialisms...)
	bad := 0
	for _, a := range vocab {
		for _, b := range vocab {
			for _, c := range vocab {
				want := []string{strings.ToLower(a), strings.ToLower(b), strings.ToLower(c)}
				got, err := DecodeGoCamelCase(a + b + c)
				if err != nil || !reflect.DeepEqual([]string(got), want) {
					if bad++; bad < 10 {
						t.Errorf("%s: got %v want %v", a+b+c, got, want)
					}
				}
			}
		}
	}
	if bad > 0 {
		t.Errorf("%d identifiers mis-split", bad)
	}
}

// D15 (fixed in d8c5ae0): words before a trailing upper-case run that follows a
// digit were dropped.
func TestD15TextDropped(t *testing.T) {
	for in, want := range map[string][]string{
		"Port2ID":   {"port2", "id"},
		"OAuth2URL": {"o", "auth2", "url"},
		"Http2GRPC": {"http2", "grpc"},
	} {
		got, err := DecodeGoCamelCase(in)
		if err != nil || !reflect.DeepEqual([]string(got), want) {
			t.Errorf("%s: got %v (%v) want %v", in, got, err, want)
		}
	}
}
