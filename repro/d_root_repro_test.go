package dials

// Reproductions of the genuine defects D1-D6 (see /verif/DESIGN.md section 5).
// Copy into /repo (package dials) to run; not part of any registered check.

import (
	"context"
	"errors"
	"reflect"
	"testing"
	"time"

	"github.com/vimeo/dials/ptrify"
)

type reproStatic struct{ v reflect.Value }

func (s *reproStatic) Value(context.Context, *Type) (reflect.Value, error) { return s.v, nil }

type reproWatcher struct {
	v  reflect.Value
	wa WatchArgs
}

func (s *reproWatcher) Value(context.Context, *Type) (reflect.Value, error) { return s.v, nil }
func (s *reproWatcher) Watch(_ context.Context, _ *Type, wa WatchArgs) error {
	s.wa = wa
	return nil
}

// D1: two layers both setting a user-declared *int.
func TestReproD1PtrToNonStructTwoLayers(t *testing.T) {
	type C struct{ A *int }
	pt := ptrify.Pointerify(reflect.TypeOf(C{}), reflect.ValueOf(C{}))
	mk := func(i int) *reproStatic {
		v := reflect.New(pt)
		v.Elem().Field(0).Set(reflect.ValueOf(&i))
		return &reproStatic{v: v}
	}
	d, err := Config(context.Background(), &C{}, mk(1), mk(2))
	if err != nil {
		t.Fatal(err)
	}
	if got := *d.View().A; got != 2 {
		t.Fatalf("got %d want 2", got)
	}
}

type reproNode struct {
	Next interface{}
	P1   interface{}
	P2   interface{}
}

// D2: back-reference through an interface; sharing through interfaces.
func TestReproD2IfaceCycle(t *testing.T) {
	n := &reproNode{}
	n.Next = n
	x := 7
	n.P1, n.P2 = &x, &x
	done := make(chan reflect.Value, 1)
	go func() { done <- realDeepCopy(n) }()
	select {
	case out := <-done:
		c := out.Interface().(*reproNode)
		if c.Next.(*reproNode) != c {
			t.Fatalf("cycle not preserved")
		}
		if c.P1.(*int) != c.P2.(*int) || c.P1.(*int) == &x {
			t.Fatalf("sharing split or aliasing input")
		}
	case <-time.After(2 * time.Second):
		t.Fatalf("deep copy did not terminate")
	}
	m := map[string]interface{}{}
	m["self"] = m
	type H struct{ M map[string]interface{} }
	go func() { done <- realDeepCopy(&H{M: m}) }()
	select {
	case out := <-done:
		h := out.Interface().(*H)
		if reflect.ValueOf(h.M["self"]).Pointer() != reflect.ValueOf(h.M).Pointer() {
			t.Fatalf("map cycle not preserved")
		}
	case <-time.After(2 * time.Second):
		t.Fatalf("deep copy of map cycle did not terminate")
	}
}

type reproCfg struct{ A int }

// D3/D4: API calls after the monitor has exited; double unregister.
func TestReproD3D4LateCallsAndDoubleUnregister(t *testing.T) {
	ctx, cancel := context.WithCancel(context.Background())
	defer cancel()
	pt := ptrify.Pointerify(reflect.TypeOf(reproCfg{}), reflect.ValueOf(reproCfg{}))
	w := &reproWatcher{v: reflect.New(pt)}
	d, err := Config(ctx, &reproCfg{}, w)
	if err != nil {
		t.Fatal(err)
	}
	_, ser := d.ViewVersion()
	unreg := d.RegisterCallback(ctx, ser, func(context.Context, *reproCfg, *reproCfg) {})
	if unreg == nil {
		t.Fatal("nil unregister")
	}
	if !unreg(ctx) {
		t.Fatal("first unregister failed")
	}
	// D4: second unregister must not kill the callback goroutine
	cctx, ccancel := context.WithTimeout(ctx, time.Second)
	unreg(cctx)
	ccancel()
	time.Sleep(50 * time.Millisecond)
	// D3: after the last watcher is done the monitor exits
	w.wa.Done(ctx)
	time.Sleep(100 * time.Millisecond)
	cctx, ccancel = context.WithTimeout(ctx, 200*time.Millisecond)
	defer ccancel()
	if u := d.RegisterCallback(cctx, ser, func(context.Context, *reproCfg, *reproCfg) {}); u != nil {
		u(cctx)
	}
}

// D5: source-reported errors and the suppression predicate.
func TestReproD5SourceErrorDelivery(t *testing.T) {
	for _, tc := range []struct {
		name         string
		delay, opt   bool
		enable, want bool
	}{
		{"nodelay_opt", false, true, false, true},
		{"delay_noopt", true, false, false, true},
		{"delay_opt_enabled", true, true, true, true},
		{"delay_opt_notenabled", true, true, false, false},
		{"plain", false, false, false, true},
	} {
		t.Run(tc.name, func(t *testing.T) {
			ctx, cancel := context.WithCancel(context.Background())
			defer cancel()
			got := make(chan error, 4)
			p := Params[reproCfg]{
				DelayInitialVerification:                    tc.delay,
				CallGlobalCallbacksAfterVerificationEnabled: tc.opt,
				OnWatchedError: func(_ context.Context, err error, _, _ *reproCfg) { got <- err },
			}
			pt := ptrify.Pointerify(reflect.TypeOf(reproCfg{}), reflect.ValueOf(reproCfg{}))
			w := &reproWatcher{v: reflect.New(pt)}
			d, err := p.Config(ctx, &reproCfg{}, w)
			if err != nil {
				t.Fatal(err)
			}
			if tc.enable {
				if _, _, err := d.EnableVerification(ctx); err != nil {
					t.Fatal(err)
				}
			}
			w.wa.ReportError(ctx, errors.New("boom"))
			select {
			case <-got:
				if !tc.want {
					t.Fatalf("error delivered while suppressed")
				}
			case <-time.After(300 * time.Millisecond):
				if tc.want {
					t.Fatalf("error not delivered")
				}
			}
		})
	}
}

type reproVCfg struct{ A int }

func (*reproVCfg) Verify() error { return nil }

// D6: EnableVerification without watchers returns the config.
func TestReproD6EnableNoWatcher(t *testing.T) {
	p := Params[reproVCfg]{DelayInitialVerification: true}
	d, err := p.Config(context.Background(), &reproVCfg{A: 3})
	if err != nil {
		t.Fatal(err)
	}
	cfg, _, err := d.EnableVerification(context.Background())
	if err != nil {
		t.Fatal(err)
	}
	if cfg == nil || cfg != d.View() {
		t.Fatalf("EnableVerification returned %v, want the installed config", cfg)
	}
}
