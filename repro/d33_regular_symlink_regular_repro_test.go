package file

import (
	"context"
	"os"
	"path/filepath"
	"testing"
	"time"

	"github.com/vimeo/dials"
	"github.com/vimeo/dials/decoders/json"
)

type o34cfg struct{ N int }

func o34wait(t *testing.T, d *dials.Dials[o34cfg], want int) {
	t.Helper()
	deadline := time.Now().Add(3 * time.Second)
	for time.Now().Before(deadline) {
		if d.View().N == want {
			return
		}
		time.Sleep(5 * time.Millisecond)
	}
	t.Fatalf("view did not converge to N=%d (still %d)", want, d.View().N)
}

func TestO34RegularSymlinkRegular(t *testing.T) {
	dir := t.TempDir()
	dir, _ = filepath.EvalSymlinks(dir)
	cfgPath := filepath.Join(dir, "cfg.json")
	if err := os.WriteFile(cfgPath, []byte(`{"N":1}`), 0o600); err != nil {
		t.Fatal(err)
	}
	ws, err := NewWatchingSource(cfgPath, &json.Decoder{})
	if err != nil {
		t.Fatal(err)
	}
	defer ws.WG.Wait()
	ctx, cancel := context.WithCancel(context.Background())
	defer cancel()
	d, err := dials.Config(ctx, &o34cfg{}, ws)
	if err != nil {
		t.Fatal(err)
	}
	o34wait(t, d, 1)

	// step 1: rename a symlink (-> sub/cfg.json) over the regular file
	sub := filepath.Join(dir, "sub")
	if err := os.Mkdir(sub, 0o700); err != nil {
		t.Fatal(err)
	}
	if err := os.WriteFile(filepath.Join(sub, "cfg.json"), []byte(`{"N":2}`), 0o600); err != nil {
		t.Fatal(err)
	}
	tmpLink := filepath.Join(dir, "cfg.json.lnk")
	if err := os.Symlink(filepath.Join("sub", "cfg.json"), tmpLink); err != nil {
		t.Fatal(err)
	}
	if err := os.Rename(tmpLink, cfgPath); err != nil {
		t.Fatal(err)
	}
	o34wait(t, d, 2)

	// step 2: rename a regular file over it again
	tmpFile := filepath.Join(dir, "cfg.json.new")
	if err := os.WriteFile(tmpFile, []byte(`{"N":3}`), 0o600); err != nil {
		t.Fatal(err)
	}
	if err := os.Rename(tmpFile, cfgPath); err != nil {
		t.Fatal(err)
	}
	o34wait(t, d, 3)
}
