package dials

import (
	"context"
	"reflect"
	"testing"
)

type o36T struct{ V int }
type o36Cfg struct {
	Any   interface{}
	Roots []*o36T
}
type o36Src struct{ v interface{} }

func (s *o36Src) Value(_ context.Context, _ *Type) (reflect.Value, error) {
	return reflect.ValueOf(s.v), nil
}

func TestO36ArrayInInterfaceIdentity(t *testing.T) {
	n := &o36T{V: 7}
	src := &o36Cfg{Any: [2]*o36T{n, n}, Roots: []*o36T{n}}
	for name, def := range map[string]*o36Cfg{"nil-default": {}, "array-default": {Any: [2]*o36T{{V: 1}, {V: 2}}}} {
		d, err := Config(context.Background(), def, &o36Src{v: src})
		if err != nil {
			t.Fatalf("%s: %v", name, err)
		}
		v := d.View()
		arr := v.Any.([2]*o36T)
		if arr[0] != arr[1] {
			t.Errorf("%s: Any[0] and Any[1] were one node in the source, are two in the result", name)
		}
		if arr[0] != v.Roots[0] {
			t.Errorf("%s: Any[0] and Roots[0] were one node in the source, are two in the result", name)
		}
		if arr[0] == n {
			t.Errorf("%s: not fresh", name)
		}
	}
}
