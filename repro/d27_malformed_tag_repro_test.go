package tagformat

import (
	"reflect"
	"testing"

	"github.com/vimeo/dials/tagformat/caseconversion"
	"github.com/vimeo/dials/transform"
)

type d27cfg struct {
	A int `dials:"a" oops`
}

func TestD27MalformedTag(t *testing.T) {
	m := NewTagReformattingMangler("dials", caseconversion.DecodeLowerSnakeCase, caseconversion.EncodeUpperSnakeCase)
	tfm := transform.NewTransformer(reflect.TypeOf(d27cfg{}), m)
	v, err := tfm.Translate()
	if err != nil {
		return // a malformed tag is reported
	}
	if _, err := tfm.ReverseTranslate(v); err != nil {
		return
	}
	t.Errorf("a malformed struct tag was neither reported nor preserved")
}
