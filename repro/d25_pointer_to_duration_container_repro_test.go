package json

import (
	"context"
	"strings"
	"testing"
	"time"

	"github.com/vimeo/dials"
	"github.com/vimeo/dials/sources/static"
)

type d25cfg struct {
	P  *[]time.Duration
	PP **time.Duration
	M  *map[string]time.Duration
}

func TestD25PointerToDurationContainers(t *testing.T) {
	src := &static.StringSource{Data: `{"P":["1s","2s"],"PP":"3s","M":{"a":"4s"}}`, Decoder: &Decoder{}}
	d, err := dials.Config(context.Background(), &d25cfg{}, src)
	if err != nil {
		t.Fatal(err)
	}
	c := d.View()
	if c.P == nil || len(*c.P) != 2 || (*c.P)[1] != 2*time.Second {
		t.Errorf("P = %v", c.P)
	}
	if c.PP == nil || *c.PP == nil || **c.PP != 3*time.Second {
		t.Errorf("PP = %v", c.PP)
	}
	if c.M == nil || (*c.M)["a"] != 4*time.Second {
		t.Errorf("M = %v", c.M)
	}
	_ = strings.TrimSpace
}
