package flag

import (
	"context"
	"net"
	"testing"

	"github.com/vimeo/dials"
)

func TestO40NetIPFlag(t *testing.T) {
	type C struct {
		Addr net.IP
		P    *net.IP
	}
	s, err := NewSetWithArgs(DefaultFlagNameConfig(), &C{}, []string{"-addr=1.2.3.4", "-p=5.6.7.8"})
	if err != nil {
		t.Fatal(err)
	}
	d, err := dials.Config(context.Background(), &C{}, s)
	if err != nil {
		t.Fatalf("Config: %v", err)
	}
	if got := d.View().Addr.String(); got != "1.2.3.4" {
		t.Fatalf("got %q", got)
	}
	if d.View().P == nil || d.View().P.String() != "5.6.7.8" {
		t.Fatalf("got %v", d.View().P)
	}
}

func TestO40Float32Max(t *testing.T) {
	type C struct {
		F float32
	}
	s, err := NewSetWithArgs(DefaultFlagNameConfig(), &C{}, []string{"-f=3.4028235e+38"})
	if err != nil {
		t.Fatal(err)
	}
	d, err := dials.Config(context.Background(), &C{}, s)
	if err != nil {
		t.Fatalf("Config: %v", err)
	}
	if d.View().F != 3.4028235e+38 {
		t.Fatalf("got %v", d.View().F)
	}
	s, _ = NewSetWithArgs(DefaultFlagNameConfig(), &C{}, []string{"-f=3.5e+38"})
	if _, err = dials.Config(context.Background(), &C{}, s); err == nil {
		t.Fatalf("3.5e38 accepted")
	}
}
