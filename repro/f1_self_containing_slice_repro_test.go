package dials

// Known finding F1 (C03), not repaired: see /verif/DESIGN.md section 4.
// Drop into /repo and run `go test -run TestF1SelfContainingSlice .`: the test binary dies with
// "fatal error: stack overflow" inside realDeepCopy (deepCopySlice -> deepCopyArray -> deepCopy -> deepCopyIface -> ...).

import (
	"context"
	"testing"
)

type f1cfg struct {
	S []interface{}
}

func TestF1SelfContainingSlice(t *testing.T) {
	c := &f1cfg{S: []interface{}{nil}}
	c.S[0] = c.S // a slice reachable from its own element
	d, err := Config(context.Background(), c)
	if err != nil {
		t.Fatal(err)
	}
	_ = d.View()
}
