package env

import (
	"context"
	"os"
	"testing"

	"github.com/vimeo/dials"
)

func TestO21EnvTagWithGenericAlias(t *testing.T) {
	type C struct {
		X string `dialsenv:"O21_FOO" dialsalias:"o21_bar"`
	}
	os.Setenv("O21_FOO", "x")
	defer os.Unsetenv("O21_FOO")
	d, err := dials.Config(context.Background(), &C{}, &Source{})
	if err != nil {
		t.Fatalf("only the primary name is set: %v", err)
	}
	if d.View().X != "x" {
		t.Fatalf("got %+v", d.View())
	}
	os.Unsetenv("O21_FOO")
	os.Setenv("O21_BAR", "y")
	defer os.Unsetenv("O21_BAR")
	d, err = dials.Config(context.Background(), &C{}, &Source{})
	if err != nil {
		t.Fatalf("only the alias name is set: %v", err)
	}
	if d.View().X != "y" {
		t.Fatalf("alias: got %+v", d.View())
	}
}
