package file

import (
	"context"
	"os"
	"path/filepath"
	"reflect"
	"testing"
	"time"

	"github.com/vimeo/dials"
	"github.com/vimeo/dials/decoders/json"
)

type o35cfg struct{ N int }

type o35args struct{ ch chan reflect.Value }

func (a *o35args) ReportNewValue(_ context.Context, v reflect.Value) error { a.ch <- v; return nil }
func (a *o35args) BlockingReportNewValue(_ context.Context, v reflect.Value) error {
	a.ch <- v
	return nil
}
func (a *o35args) Done(context.Context)                     {}
func (a *o35args) ReportError(context.Context, error) error { return nil }

func TestO35ChangeBetweenInitialReadAndWatch(t *testing.T) {
	dir := t.TempDir()
	cfgPath := filepath.Join(dir, "cfg.json")
	if err := os.WriteFile(cfgPath, []byte(`{"N":1}`), 0o600); err != nil {
		t.Fatal(err)
	}
	ws, err := NewWatchingSource(cfgPath, &json.Decoder{})
	if err != nil {
		t.Fatal(err)
	}
	defer ws.WG.Wait()
	ctx, cancel := context.WithCancel(context.Background())
	defer cancel()
	typ := dials.NewType(reflect.TypeOf(o35cfg{}))
	// what dials.Config does first: read the initial value
	if _, err := ws.Value(ctx, typ); err != nil {
		t.Fatal(err)
	}
	// the file changes (for the last time) before the watches are in place
	if err := os.WriteFile(cfgPath, []byte(`{"N":2}`), 0o600); err != nil {
		t.Fatal(err)
	}
	args := &o35args{ch: make(chan reflect.Value, 4)}
	// ... and then Config starts the watcher
	if err := ws.Watch(ctx, typ, args); err != nil {
		t.Fatal(err)
	}
	select {
	case v := <-args.ch:
		if v.Interface().(o35cfg).N != 2 {
			t.Fatalf("reported %+v", v.Interface())
		}
	case <-time.After(2 * time.Second):
		t.Fatal("the final content written before the watches were set up was never reported")
	}
}
