package transform

// D12: AnonymousFlattenMangler.unmangleStruct indexed past the end of the
// value tuples when the embedded struct has a field after its last retained
// (exported) one. Copy into /repo/transform to run.

import (
	"reflect"
	"testing"
)

func TestReproD12AnonymousFlattenTrailingField(t *testing.T) {
	type E struct {
		A *int
		b int //nolint
	}
	type C struct {
		E
		Z *int
	}
	tfm := NewTransformer(reflect.TypeOf(C{}), AnonymousFlattenMangler{})
	v, err := tfm.Translate()
	if err != nil {
		t.Fatal(err)
	}
	if _, err := tfm.ReverseTranslate(v); err != nil {
		t.Fatal(err)
	}
}
