package flaghelper

import (
	"reflect"
	"testing"
)

func TestD22EmptyKeyRoundTrip(t *testing.T) {
	m := map[string]string{"": "v", "a": "b"}
	w := NewMapStringStringFlag(&m)
	txt := w.String()
	out := map[string]string{}
	r := NewMapStringStringFlag(&out)
	if err := r.Set(txt); err != nil {
		t.Fatalf("Set(%q): %v", txt, err)
	}
	if !reflect.DeepEqual(out, m) {
		t.Errorf("%q parsed to %v, want %v", txt, out, m)
	}
}

func TestD23EmptyIntegralSliceRoundTrip(t *testing.T) {
	in := []int8{}
	txt := NewSignedIntegralSlice(&in).String()
	out := []int8{1}
	r := NewSignedIntegralSlice(&out)
	if err := r.Set(txt); err != nil {
		t.Fatalf("Set(%q): %v", txt, err)
	}
	if len(out) != 0 {
		t.Errorf("%q parsed to %v, want empty", txt, out)
	}
}
