#!/usr/bin/env python3
"""Confirm a seeded change produced by a sub-agent, independently, in a fresh
scratch worktree of /repo: demo passes on the pristine tree, patch applies and
builds, demo fails with the patch, the whole existing suite passes with the
patch. On success the change is kept as /verif/seeded/<id>/ (patch.diff, demo,
notes.md, meta.json). The worktree is removed afterwards.

usage: confirm_seed.py <src_dir (contains patch.diff, demo_test.go, notes.md)> <id e.g. C04-1>
"""
import json, os, re, shutil, subprocess, sys, time

ENV = dict(os.environ, GOFLAGS="-mod=mod", GOPROXY="off", GOSUMDB="off", GOTOOLCHAIN="local")
ENV.pop("GOWORK", None)

def run(cmd, cwd, timeout=600):
    t0 = time.time()
    try:
        p = subprocess.run(cmd, cwd=cwd, env=ENV, shell=True, stdout=subprocess.PIPE, stderr=subprocess.STDOUT, timeout=timeout, text=True)
        return p.returncode, p.stdout, time.time() - t0
    except subprocess.TimeoutExpired as e:
        return 124, (e.stdout or "") + "\nTIMEOUT", time.time() - t0

def pkg_dirs(repo):
    out = {}
    for d, _, files in os.walk(repo):
        if "/.git" in d or "/_out" in d:
            continue
        for f in files:
            if f.endswith(".go") and not f.endswith("_test.go"):
                m = re.search(r"^package (\w+)", open(os.path.join(d, f)).read(), re.M)
                if m:
                    out.setdefault(m.group(1), set()).add(os.path.relpath(d, repo))
    return out

def main():
    src, sid = sys.argv[1], sys.argv[2]
    prop = sid.split("-")[0]
    wt = "/tmp/confirm_" + sid
    subprocess.run(f"git -C /repo worktree remove --force {wt}", shell=True, stderr=subprocess.DEVNULL)
    shutil.rmtree(wt, ignore_errors=True)
    subprocess.check_call(f"git -C /repo worktree add -q --detach {wt} HEAD", shell=True)
    meta = {"id": sid, "property": prop, "confirmed": False, "ran": []}
    try:
        demo = open(os.path.join(src, "demo_test.go")).read()
        notes = open(os.path.join(src, "notes.md")).read() if os.path.exists(os.path.join(src, "notes.md")) else ""
        pkg = re.search(r"^package (\w+)", demo, re.M).group(1)
        base = pkg[:-5] if pkg.endswith("_test") else pkg
        m = re.match(r"DEMO:\s*dir=(\S+)", notes)
        if m and os.path.isdir(os.path.join(wt, m.group(1))):
            d = m.group(1)  # the sub-agent named the package directory (also covers test-only packages)
        else:
            cands = sorted(pkg_dirs(wt).get(base, []))
            if not cands:
                raise SystemExit(f"no package dir for {pkg}")
            d = cands[0]
            if len(cands) > 1:
                for c in cands:
                    if c != "." and c in notes:
                        d = c
        tests = re.findall(r"^func (Test\w+)\(", demo, re.M)
        runre = "^(" + "|".join(tests) + ")$"
        demo_path = os.path.join(wt, d, "zz_seed_demo_test.go")
        shutil.copy(os.path.join(src, "demo_test.go"), demo_path)
        cmd = f"go test -vet=off -count=1 -timeout 300s -run '{runre}' ./{d}"
        rc0, out0, t0 = run(cmd, wt, 400)
        meta["ran"].append({"cmd": cmd, "tree": "pristine", "exit": rc0, "s": round(t0, 1)})
        rc, out, _ = run(f"git apply {os.path.join(src, 'patch.diff')}", wt)
        meta["ran"].append({"cmd": "git apply patch.diff", "exit": rc})
        if rc != 0:
            raise SystemExit("patch does not apply: " + out)
        touched = subprocess.run("git diff --name-only", cwd=wt, shell=True, stdout=subprocess.PIPE, text=True).stdout.split()
        meta["files"] = touched
        if any(f.endswith("_test.go") for f in touched):
            raise SystemExit("patch touches test files")
        rcb, outb, _ = run("go build ./... ", wt)
        meta["ran"].append({"cmd": "go build ./...", "tree": "patched", "exit": rcb})
        # go vet is recorded, not required: the baseline suite runs with -vet=off
        rcv, _, _ = run("go vet ./... ", wt)
        meta["ran"].append({"cmd": "go vet ./...", "tree": "patched", "exit": rcv})
        rc1, out1, t1 = run(cmd, wt, 400)
        meta["ran"].append({"cmd": cmd, "tree": "patched", "exit": rc1, "s": round(t1, 1), "tail": out1[-600:]})
        os.remove(demo_path)
        rc2, out2, t2 = run("go test -vet=off -count=1 ./...", wt, 900)
        meta["ran"].append({"cmd": "go test -vet=off -count=1 ./...", "tree": "patched (demo removed)", "exit": rc2, "s": round(t2, 1)})
        ok = rc0 == 0 and rcb == 0 and rc1 != 0 and rc2 == 0
        meta["confirmed"] = ok
        meta["demo_package_dir"] = d
        meta["demo_run"] = cmd
        m = re.search(r"(?is)needs?( in order)? to manifest\s*\n+(.*?)(\n#|\Z)", notes)
        meta["needs_to_manifest"] = (m.group(2).strip()[:900] if m else "see notes.md")
        if not ok:
            print(f"{sid}: NOT CONFIRMED pristine={rc0} build={rcb} patched-demo={rc1} suite={rc2}")
            if rc0 != 0: print(out0[-1500:])
            if rc2 != 0: print(out2[-1500:])
        else:
            dst = os.path.join("/verif/seeded", sid)
            os.makedirs(dst, exist_ok=True)
            for f in ("patch.diff", "demo_test.go", "notes.md"):
                if os.path.exists(os.path.join(src, f)):
                    shutil.copy(os.path.join(src, f), os.path.join(dst, f))
            json.dump(meta, open(os.path.join(dst, "meta.json"), "w"), indent=1)
            print(f"{sid}: confirmed (pristine demo pass, patched demo fail, suite pass) files={touched}")
    finally:
        subprocess.run(f"git -C /repo worktree remove --force {wt}", shell=True)
        shutil.rmtree(wt, ignore_errors=True)

main()
