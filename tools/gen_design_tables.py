#!/usr/bin/env python3
"""Generates /verif/DESIGN_TABLES.md from what the machinery itself reports:
 - per property: the rules applied (from the evidence files written by the checks),
   obligations / discharged / trivial (idiom) counts,
 - the self-test mutants per property (from /verif/mutants),
 - which registered check catches which confirmed seeded change (from /verif/seeded/RESULTS.json).
Run after `bin/dialscheck` has been run for every property on the clean tree."""
import glob, json, os, collections

out = []
out.append("# Generated tables (tools/gen_design_tables.py) — do not edit by hand\n")

# ---- rules per property ------------------------------------------------------
out.append("## A. Rules applied per property (from evidence/*.json of the last run on the clean tree)\n")
for ev in sorted(glob.glob("/verif/evidence/C*.json")):
    d = json.load(open(ev))
    cov = d["coverage"]
    obs = cov["samples"]
    triv = sum(1 for o in obs if not o.get("nontrivial", True))
    out.append(f"### {d['property_id']} — {cov['obligations']} obligations, {cov['discharged']} discharged, {triv} accepted by reviewed idiom/trivially, {cov['evaluations']} evaluations (incl. table rows), {cov['functions_analysed']} functions, variants {cov['build_variants']}\n")
    percount = collections.Counter(o["rule"] for o in obs)
    out.append("| rule | instances | what is checked |")
    out.append("|---|---|---|")
    for r in cov["rules_applied"]:
        rid, text = r.split(": ", 1)
        out.append(f"| `{rid}` | {percount.get(rid, 0)} | {text} |")
    out.append("")

# ---- mutants -----------------------------------------------------------------
out.append("## B. Self-test mutants (overlay-applied seeded breakages, `thorough` tier)\n")
out.append("| property | mutant | kind | expected rule(s) | note |")
out.append("|---|---|---|---|---|")
for f in sorted(glob.glob("/verif/mutants/C*/*.json")):
    m = json.load(open(f))
    kind = "behaviour-preserving (must stay silent)" if m.get("equivalent") else "breaks the property"
    out.append(f"| {m['property']} | {m['name']} | {kind} | {', '.join(m.get('expect', []))} | {m.get('note','')} |")
out.append("")

# ---- seeded changes ----------------------------------------------------------
res_path = "/verif/seeded/RESULTS.json"
if os.path.exists(res_path):
    res = json.load(open(res_path))
    out.append("## C. Confirmed seeded changes from independent sub-agents and the checks that catch them\n")
    out.append("Each change was produced by a sub-agent that saw only the property text, compiles, keeps the 649-test suite green, and makes its own demonstration fail (confirmed independently by tools/confirm_seed.py). `own` = caught by the check of the property it was written against.\n")
    out.append("| seed | files | own check | caught by | first report |")
    out.append("|---|---|---|---|---|")
    for sid in sorted(res):
        r = res[sid]
        meta = {}
        mp = f"/verif/seeded/{sid}/meta.json"
        if os.path.exists(mp):
            meta = json.load(open(mp))
        if not r.get("applies"):
            out.append(f"| {sid} | {','.join(meta.get('files', []))} | patch no longer applies | | |")
            continue
        prop = sid.split("-")[0]
        caught = sorted(p for p, d in r["checks"].items() if d["exit"] != 0)
        own = "CAUGHT" if prop in caught else ("missed" if prop in r["checks"] else "n/a")
        first = ""
        for p in ([prop] if prop in caught else caught):
            reps = r["checks"][p]["reports"]
            if reps:
                first = reps[0].split(" at ")[0].replace("VIOLATED ", "").replace("UNDECIDED ", "(undecided) ")
                break
        out.append(f"| {sid} | {','.join(meta.get('files', []))} | {own} | {', '.join(caught)} | `{first}` |")
    tot = len(res)
    own_c = sum(1 for sid, r in res.items() if r.get("applies") and r["checks"].get(sid.split('-')[0], {}).get("exit", 0) != 0)
    any_c = sum(1 for sid, r in res.items() if r.get("applies") and any(d["exit"] != 0 for d in r["checks"].values()))
    out.append("")
    out.append(f"Totals: {tot} confirmed seeded changes; {own_c} caught by their own property's check; {any_c} caught by at least one registered check.\n")

ref_path = "/verif/refactors/RESULTS.json"
if os.path.exists(ref_path):
    ref = json.load(open(ref_path))
    out.append("## D. Confirmed behaviour-preserving refactorings (sub-agents, rounds 5 and 6) against all 20 properties' rules\n")
    out.append("Each patch applies to the pinned tree, builds and keeps the whole suite green; any report is a false alarm of the checker (tools/run_refactors.py).\n")
    out.append("| refactoring | silent on all properties | helpers folded back in | reports |")
    out.append("|---|---|---|---|")
    for rid in sorted(ref):
        r = ref[rid]
        if not r.get("applies"):
            out.append(f"| {rid} | patch no longer applies | | |")
            continue
        folded = sorted(set(n.split("call of ")[1].split(" in ")[0] for n in r.get("folding", []) if "call of " in n))
        folded += sorted(set("closure " + n.split("closure ")[1].split(" in ")[0] for n in r.get("folding", []) if "local closure " in n))
        out.append(f"| {rid} | {'yes' if r.get('silent') else 'NO'} | {', '.join(folded)} | {'; '.join(a.split(' at ')[0] for a in r.get('alarms', [])[:3])} |")
    n_s = sum(1 for r in ref.values() if r.get("silent"))
    out.append("")
    out.append(f"Totals: {len(ref)} refactorings; {n_s} raise no report on any property.\n")

open("/verif/DESIGN_TABLES.md", "w").write("\n".join(out))
print("written", len(out), "lines")
