#!/usr/bin/env python3
"""Runs the registered quick checks against every confirmed seeded change:
apply the patch to /repo (git apply), run the check(s), undo (git checkout -- .).
usage: run_seeded.py [ids...]   (default: all under /verif/seeded)
       run_seeded.py --all-props ids...  (run every claimed property's check, not just the seed's own)
Writes /verif/seeded/RESULTS.json and prints a table."""
import json, os, subprocess, sys

def sh(cmd, cwd=None):
    p = subprocess.run(cmd, shell=True, cwd=cwd, stdout=subprocess.PIPE, stderr=subprocess.STDOUT, text=True)
    return p.returncode, p.stdout

def main():
    args = sys.argv[1:]
    allprops = False
    if args and args[0] == "--all-props":
        allprops = True
        args = args[1:]
    ids = args or sorted(d for d in os.listdir("/verif/seeded") if os.path.isdir("/verif/seeded/" + d))
    man = json.load(open("/verif/MANIFEST.json"))
    claimed = {c["property_id"]: c for c in man["checks"]}
    rc, out = sh("git -C /repo status --porcelain")
    if out.strip():
        raise SystemExit("/repo is not clean:\n" + out)
    results = {}
    if os.path.exists("/verif/seeded/RESULTS.json"):
        results = json.load(open("/verif/seeded/RESULTS.json"))
    for sid in ids:
        prop = sid.split("-")[0]
        patch = f"/verif/seeded/{sid}/patch.diff"
        rc, out = sh(f"git -C /repo apply {patch}")
        if rc != 0:
            print(f"{sid}: patch no longer applies: {out.strip()[:200]}")
            results[sid] = {"applies": False}
            continue
        try:
            props = sorted(claimed) if allprops else ([prop] if prop in claimed else [])
            det = {}
            for p in props:
                rc, out = sh(claimed[p]["quick_cmd"], cwd="/verif")
                lines = [l for l in out.splitlines() if l.startswith(("VIOLATED", "UNDECIDED"))]
                det[p] = {"exit": rc, "reports": [l[:260] for l in lines[:6]]}
            results[sid] = {"applies": True, "checks": det}
            own = det.get(prop)
            caught_by = [p for p, d in det.items() if d["exit"] != 0]
            print(f"{sid}: own-check={'n/a' if own is None else ('CAUGHT' if own['exit'] else 'missed')} caught_by={caught_by}")
            for p in caught_by:
                for l in det[p]["reports"][:3]:
                    print("     ", l[:200])
        finally:
            sh("git -C /repo checkout -- .")
    json.dump(results, open("/verif/seeded/RESULTS.json", "w"), indent=1, sort_keys=True)
    # evidence files were rewritten by runs on mutated trees: regenerate on the clean tree
    for p in sorted(claimed):
        sh(claimed[p]["quick_cmd"], cwd="/verif")

main()
