#!/usr/bin/env python3
"""Runs the registered checks against every confirmed seeded change.

Default mode (as the task describes): apply the patch to /repo (git apply), run
the quick check(s), undo (git checkout -- .).

--scratch: do the same in a throw-away worktree of /repo under /tmp (removed at
the end) with the checker's -repo/-verif flags, all properties in parallel, so
that /repo and /verif/evidence stay untouched while it runs.

usage: run_seeded.py [--all-props] [--scratch] [ids...]
Writes /verif/seeded/RESULTS.json (merged) and prints a table."""
import json, os, shutil, subprocess, sys
from concurrent.futures import ThreadPoolExecutor

def sh(cmd, cwd=None):
    p = subprocess.run(cmd, shell=True, cwd=cwd, stdout=subprocess.PIPE, stderr=subprocess.STDOUT, text=True)
    return p.returncode, p.stdout

def main():
    args = sys.argv[1:]
    allprops = "--all-props" in args
    scratch = "--scratch" in args
    args = [a for a in args if not a.startswith("--")]
    ids = args or sorted(d for d in os.listdir("/verif/seeded") if os.path.isdir("/verif/seeded/" + d))
    man = json.load(open("/verif/MANIFEST.json"))
    claimed = {c["property_id"]: c for c in man["checks"]}
    repo = "/repo"
    vroot = "/verif"
    if scratch:
        repo = "/tmp/seedrun_repo"
        vroot = "/tmp/seedrun_verif"
        sh(f"git -C /repo worktree remove --force {repo}")
        shutil.rmtree(repo, ignore_errors=True)
        shutil.rmtree(vroot, ignore_errors=True)
        rc, out = sh(f"git -C /repo worktree add -q --detach {repo} HEAD")
        if rc != 0:
            raise SystemExit(out)
        os.makedirs(vroot + "/evidence")
        shutil.copy("/verif/known_findings.json", vroot + "/known_findings.json")
    else:
        rc, out = sh("git -C /repo status --porcelain")
        if out.strip():
            raise SystemExit("/repo is not clean:\n" + out)
    results = {}
    if os.path.exists("/verif/seeded/RESULTS.json"):
        results = json.load(open("/verif/seeded/RESULTS.json"))
    try:
        for sid in ids:
            prop = sid.split("-")[0]
            patch = f"/verif/seeded/{sid}/patch.diff"
            rc, out = sh(f"git -C {repo} apply {patch}")
            if rc != 0:
                print(f"{sid}: patch no longer applies: {out.strip()[:200]}")
                results[sid] = {"applies": False}
                continue
            try:
                props = sorted(claimed) if allprops else ([prop] if prop in claimed else [])
                def run(p):
                    if scratch:
                        cmd = f"/verif/bin/dialscheck -prop {p} -tier quick -repo {repo} -verif {vroot}"
                    else:
                        cmd = claimed[p]["quick_cmd"]
                    rc, out = sh(cmd, cwd="/verif")
                    lines = [l for l in out.splitlines() if l.startswith(("VIOLATED", "UNDECIDED"))]
                    return p, {"exit": rc, "reports": [l[:260] for l in lines[:6]]}
                with ThreadPoolExecutor(max_workers=8 if scratch else 1) as ex:
                    det = dict(ex.map(run, props))
                results[sid] = {"applies": True, "checks": det}
                own = det.get(prop)
                caught_by = [p for p, d in det.items() if d["exit"] != 0]
                print(f"{sid}: own-check={'n/a' if own is None else ('CAUGHT' if own['exit'] else 'missed')} caught_by={caught_by}", flush=True)
                for p in ([prop] if own and own["exit"] else caught_by[:1]):
                    for l in det[p]["reports"][:2]:
                        print("     ", l[:200])
            finally:
                sh(f"git -C {repo} checkout -- .")
    finally:
        if scratch:
            sh(f"git -C /repo worktree remove --force {repo}")
            shutil.rmtree(repo, ignore_errors=True)
            shutil.rmtree(vroot, ignore_errors=True)
    json.dump(results, open("/verif/seeded/RESULTS.json", "w"), indent=1, sort_keys=True)
    if not scratch:
        # evidence files were rewritten by runs on mutated trees: regenerate on the clean tree
        for p in sorted(claimed):
            sh(claimed[p]["quick_cmd"], cwd="/verif")

main()
