#!/usr/bin/env python3
"""Runs the registered checks against every confirmed seeded change.

Default mode (as the task describes): apply the patch to /repo (git apply), run
the quick check(s), undo (git checkout -- .).

--scratch: do the same in a throw-away worktree of /repo under /tmp (removed at
the end) with the checker's -repo/-verif flags, all properties in parallel, so
that /repo and /verif/evidence stay untouched while it runs.

--fast (implies --all-props --scratch): one load per seed instead of twenty - the checker's `-all` mode evaluates
the rules of all 20 properties on one load and prints every non-discharged obligation with its property; a property
counts as alarmed when it has such a line that is not a recorded known finding (the same condition as exit 1 of its
quick command). Four scratch worktrees are used in parallel.

usage: run_seeded.py [--all-props] [--scratch] [--fast] [ids...]
Writes /verif/seeded/RESULTS.json (merged) and prints a table."""
import json, os, shutil, subprocess, sys
from concurrent.futures import ThreadPoolExecutor

def sh(cmd, cwd=None):
    p = subprocess.run(cmd, shell=True, cwd=cwd, stdout=subprocess.PIPE, stderr=subprocess.STDOUT, text=True)
    return p.returncode, p.stdout

def fast_main(ids):
    man = json.load(open("/verif/MANIFEST.json"))
    claimed = sorted(c["property_id"] for c in man["checks"])
    known = set()
    try:
        kf = json.load(open("/verif/known_findings.json"))
        for e in kf.get("findings", kf if isinstance(kf, list) else []):
            if isinstance(e, dict) and e.get("status") == "finding":
                known.add(e.get("obligation", ""))
    except Exception:
        pass
    results = {}
    if os.path.exists("/verif/seeded/RESULTS.json"):
        results = json.load(open("/verif/seeded/RESULTS.json"))
    nw = 4
    chunks = [ids[i::nw] for i in range(nw)]
    # the scratch worktrees are made one after the other, before the workers start (concurrent `git worktree add`s race)
    import time
    for k in range(nw):
        repo = f"/tmp/seedrun_repo_{k}"
        for attempt in range(5):
            sh(f"git -C /repo worktree remove --force {repo}")
            shutil.rmtree(repo, ignore_errors=True)
            rc, out = sh(f"git -C /repo worktree add -q --detach {repo} HEAD")
            if rc == 0:
                break
            time.sleep(2)
        if rc != 0:
            raise SystemExit(out)
    def work(k):
        repo = f"/tmp/seedrun_repo_{k}"
        out_res = {}
        try:
            for sid in chunks[k]:
                prop = sid.split("-")[0]
                rc, out = sh(f"git -C {repo} apply /verif/seeded/{sid}/patch.diff")
                if rc != 0:
                    print(f"{sid}: patch no longer applies: {out.strip()[:200]}", flush=True)
                    out_res[sid] = {"applies": False}
                    continue
                try:
                    rc, out = sh(f"/verif/bin/dialscheck -all -repo {repo}", cwd="/verif")
                    det = {p: {"exit": 0, "reports": []} for p in claimed}
                    for l in out.splitlines():
                        if not l.startswith(("VIOLATED", "UNDECIDED", "LOAD-ERROR")):
                            continue
                        parts = l.split()
                        ob = parts[1] if len(parts) > 1 else ""
                        p = ob[:3]
                        if ob in known or p not in det:
                            if l.startswith("LOAD-ERROR"):
                                for q in det:
                                    det[q]["exit"] = 1
                            continue
                        det[p]["exit"] = 1
                        if len(det[p]["reports"]) < 6:
                            det[p]["reports"].append(l[:260])
                    out_res[sid] = {"applies": True, "checks": det}
                    own = det.get(prop)
                    caught_by = [p for p, d in det.items() if d["exit"] != 0]
                    print(f"{sid}: own-check={'n/a' if own is None else ('CAUGHT' if own['exit'] else 'missed')} caught_by={caught_by}", flush=True)
                finally:
                    sh(f"git -C {repo} checkout -- .")
                    sh(f"git -C {repo} clean -fdq")
        finally:
            sh(f"git -C /repo worktree remove --force {repo}")
        return out_res
    with ThreadPoolExecutor(max_workers=nw) as ex:
        for r in ex.map(work, range(nw)):
            results.update(r)
    json.dump(results, open("/verif/seeded/RESULTS.json", "w"), indent=1, sort_keys=True)
    own_missed = [s for s, r in sorted(results.items()) if r.get("applies") and r["checks"].get(s.split("-")[0], {}).get("exit") == 0]
    print("seeds:", len(results), "own-check missed:", own_missed)

def main():
    args = sys.argv[1:]
    if "--fast" in args:
        ids = [a for a in args if not a.startswith("--")] or sorted(d for d in os.listdir("/verif/seeded") if os.path.isdir("/verif/seeded/" + d))
        return fast_main(ids)
    allprops = "--all-props" in args
    scratch = "--scratch" in args
    args = [a for a in args if not a.startswith("--")]
    ids = args or sorted(d for d in os.listdir("/verif/seeded") if os.path.isdir("/verif/seeded/" + d))
    man = json.load(open("/verif/MANIFEST.json"))
    claimed = {c["property_id"]: c for c in man["checks"]}
    repo = "/repo"
    vroot = "/verif"
    if scratch:
        repo = "/tmp/seedrun_repo"
        vroot = "/tmp/seedrun_verif"
        sh(f"git -C /repo worktree remove --force {repo}")
        shutil.rmtree(repo, ignore_errors=True)
        shutil.rmtree(vroot, ignore_errors=True)
        rc, out = sh(f"git -C /repo worktree add -q --detach {repo} HEAD")
        if rc != 0:
            raise SystemExit(out)
        os.makedirs(vroot + "/evidence")
        shutil.copy("/verif/known_findings.json", vroot + "/known_findings.json")
    else:
        rc, out = sh("git -C /repo status --porcelain")
        if out.strip():
            raise SystemExit("/repo is not clean:\n" + out)
    results = {}
    if os.path.exists("/verif/seeded/RESULTS.json"):
        results = json.load(open("/verif/seeded/RESULTS.json"))
    try:
        for sid in ids:
            prop = sid.split("-")[0]
            patch = f"/verif/seeded/{sid}/patch.diff"
            rc, out = sh(f"git -C {repo} apply {patch}")
            if rc != 0:
                print(f"{sid}: patch no longer applies: {out.strip()[:200]}")
                results[sid] = {"applies": False}
                continue
            try:
                props = sorted(claimed) if allprops else ([prop] if prop in claimed else [])
                def run(p):
                    if scratch:
                        cmd = f"/verif/bin/dialscheck -prop {p} -tier quick -repo {repo} -verif {vroot}"
                    else:
                        cmd = claimed[p]["quick_cmd"]
                    rc, out = sh(cmd, cwd="/verif")
                    lines = [l for l in out.splitlines() if l.startswith(("VIOLATED", "UNDECIDED"))]
                    return p, {"exit": rc, "reports": [l[:260] for l in lines[:6]]}
                with ThreadPoolExecutor(max_workers=8 if scratch else 1) as ex:
                    det = dict(ex.map(run, props))
                results[sid] = {"applies": True, "checks": det}
                own = det.get(prop)
                caught_by = [p for p, d in det.items() if d["exit"] != 0]
                print(f"{sid}: own-check={'n/a' if own is None else ('CAUGHT' if own['exit'] else 'missed')} caught_by={caught_by}", flush=True)
                for p in ([prop] if own and own["exit"] else caught_by[:1]):
                    for l in det[p]["reports"][:2]:
                        print("     ", l[:200])
            finally:
                sh(f"git -C {repo} checkout -- .")
    finally:
        if scratch:
            sh(f"git -C /repo worktree remove --force {repo}")
            shutil.rmtree(repo, ignore_errors=True)
            shutil.rmtree(vroot, ignore_errors=True)
    json.dump(results, open("/verif/seeded/RESULTS.json", "w"), indent=1, sort_keys=True)
    if not scratch:
        # evidence files were rewritten by runs on mutated trees: regenerate on the clean tree
        for p in sorted(claimed):
            sh(claimed[p]["quick_cmd"], cwd="/verif")

main()
