#!/usr/bin/env python3
"""Runs every rule of every property against each confirmed behaviour-preserving
refactoring in /verif/refactors/<id>/patch.diff: the patch is applied to a
throw-away worktree of /repo under /tmp (removed at the end) and the checker is
run once over it with all 20 properties' rules (-all: one load, native build
variant). Any VIOLATED / UNDECIDED line is a false alarm.

usage: run_refactors.py [ids...]      writes /verif/refactors/RESULTS.json"""
import json, os, subprocess, sys
from concurrent.futures import ThreadPoolExecutor

def sh(cmd):
    p = subprocess.run(cmd, shell=True, stdout=subprocess.PIPE, stderr=subprocess.STDOUT, text=True)
    return p.returncode, p.stdout

def one(rid):
    w = f"/tmp/refrun_{rid}"
    sh(f"git -C /repo worktree remove --force {w}")
    rc, out = sh(f"git -C /repo worktree add -q --detach {w} HEAD")
    if rc != 0:
        return rid, {"applies": False, "error": out[:200]}
    try:
        rc, out = sh(f"git -C {w} apply /verif/refactors/{rid}/patch.diff")
        if rc != 0:
            return rid, {"applies": False, "error": out[:200]}
        rc, out = sh(f"cd /verif && bin/dialscheck -all -repo {w}")
        alarms = [l[:240] for l in out.splitlines() if l.startswith(("VIOLATED", "UNDECIDED", "LOAD-ERROR"))]
        folded = [l[5:200] for l in out.splitlines() if l.startswith("NOTE helper folding")]
        return rid, {"applies": True, "silent": not alarms, "alarms": alarms, "folding": folded}
    finally:
        sh(f"git -C /repo worktree remove --force {w}")

def main():
    ids = sys.argv[1:] or sorted(d for d in os.listdir("/verif/refactors") if os.path.isfile("/verif/refactors/" + d + "/patch.diff"))
    res = {}
    if os.path.exists("/verif/refactors/RESULTS.json"):
        res = json.load(open("/verif/refactors/RESULTS.json"))
    with ThreadPoolExecutor(max_workers=3) as ex:
        for rid, r in ex.map(one, ids):
            res[rid] = r
            print(rid, "silent" if r.get("silent") else ("ALARMS " + "; ".join(r.get("alarms", [r.get("error", "")])[:2])), flush=True)
    json.dump(res, open("/verif/refactors/RESULTS.json", "w"), indent=1, sort_keys=True)
    n = sum(1 for r in res.values() if r.get("silent"))
    print(f"{n} of {len(res)} refactorings raise no report on any property")

main()
