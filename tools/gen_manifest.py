#!/usr/bin/env python3
"""Regenerates /verif/MANIFEST.json from the table below (one entry per
property). Properties whose rules are not built (or that static analysis cannot
decide) are listed under not_applicable with the reason."""
import json, subprocess

ENVP = "export GOFLAGS=-mod=mod GOPROXY=off GOSUMDB=off GOTOOLCHAIN=local GOWORK=off; "

# id -> (technique, decided clause text, not decided / trusted note)
CLAIMED = {
 "C04": ("call-graph who-may-write + SSA dominance + reaching-condition truth tables + def-use flow (go/ssa)",
         "Decides for every history and interleaving the structural facts that make the guarantee true: the published version has a single writer (monitor goroutine) apart from the initial store; the store is reached exactly when compose succeeded and the verification decision (isVerified && !skipVerify => Verify()==nil) passed, on the same compose result; reject branches store nothing, submit (err, View(), rejected) and answer the blocking reporter with that error; BlockingReportNewValue returns what the monitor answered; handlers only receive event fields.",
         "Not decided: behaviour of user Verify methods, queue-overflow timing. Trusted: go/ssa lowering, sync/atomic semantics."),
 "C05": ("call-graph + def-use flow + dominance over go/ssa; both Dials struct build variants",
         "Decides that incremental re-stacking and a fresh Config are the same computation over the same inputs (same compose, same pristine defaults copy, same slot slice; slot replaced by source identity with exactly the reported value and written nowhere else), that each stored serial is (serial loaded in the same function with no store between) + 1 with the event carrying the same arithmetic and the predecessor config, and that View/ViewVersion read config and serial through exactly one atomic load of one freshly allocated pair.",
         "Not decided: value-level equality of the stacked results (reflection at run time). Trusted: go/ssa lowering, sync/atomic."),
 "C06": ("reaching-condition truth tables over serial orderings + dominance/path rules + call-graph who-may (go/ssa)",
         "Decides serialization (one callback goroutine, no spawning, handlers called nowhere else), FIFO consumption by a single consumer, the exact skip predicate (event.serial > handle.minSerial) and catch-up predicate (cfg != nil && registered serial < last announced) as exhaustive truth tables over all orderings, the last-announced bookkeeping, handler argument provenance (old = predecessor loaded before the install), in-order handle-list rebuild, drain-before-exit, and the unregister handshake (true only after the loop's acknowledgement).",
         "Not decided: behaviour after the documented drop-on-overflow; scheduling. Trusted: Go channel FIFO semantics, go/ssa lowering."),
 "C07": ("channel-capacity + path (must-answer / at-most-once) + dominance + select-shape rules (go/ssa)",
         "Decides that the reply channel has constant capacity >= 1 and receives exactly one answer on every path of the re-stack when non-nil (the rejection error on reject exits, nil only after the store), that BlockingReportNewValue's submission and wait are selects containing <-ctx.Done() of its own context whose arms return failures, that nil is returned only after a nil answer, and that Blank.SetSource assigns the inner source only after Value succeeded, bounds the report by its own context, returns nil only after the report did and starts the inner Watch afterwards.",
         "Not decided: scheduling latency; that a later report supersedes (history-level). Trusted: buffered-channel semantics."),
 "C08": ("select-shape + who-may (close ownership, lock-freedom) + exhaustiveness + path rules over go/ssa and the static call graph",
         "Decides structural necessary conditions that hold for all interleavings: the monitor only ever does non-blocking sends on the callback queue; every channel operation on caller goroutines is bounded by the call's own context; no channel that is closed is sent to from another goroutine than the closer's (and the callback queue is never closed); sealed event switches are exhaustive; make() sizes cannot be negative; reply channels have room and get exactly one answer; both goroutine roots have an exit for every blocking operation (context arm / deferred close of the shutdown channel that the callback loop selects on); the callback loop exits only drained; goroutine roots are lock-free; Lock/defer-Unlock pairing; Blank bounds its blocking calls by the caller's context.",
         "Not a proof of deadlock freedom or liveness: no scheduler model is explored (different technique family). User callbacks may block by contract. Trusted: fsnotify, runtime."),
 "C09": ("exhaustive truth tables of extracted guard formulas (delay x suppress x verified x error) + who-may-call + def-use flow (go/ssa)",
         "Decides the whole delayed-verification state machine structurally: the four Verify call sites and the exact guard of each; the skip flag's only origin (DelayInitialVerification) and only transition (!helper, called only while skipping; helper true iff not verifiable or Verify()==nil); that every success reply/return carries the (config, serial) of the one ViewVersion call that was verified and every failure a nil config; globalCBsSuppressed == skipVerify && option; source errors delivered iff !(skipVerify && option); the callback loop filters nothing else.",
         "Not decided: what user Verify does; the 'indeterminate on context expiry' case the API documents. Trusted: go/ssa lowering."),
 "C01": ("universally-quantified reaching-condition checks over all reflect kinds + sibling agreement (Pointerify vs overlay walk) + induction-variable flow + dominance (go/ssa)",
         "Decides argument-order stacking (slot i from sources[i], forward range in compose onto one base), that no mutation in the leaf overlay is reachable for a nil overlay of any kind Pointerify can emit, that every retained pointerified field type is nil-able, that Pointerify and the overlay walk omit exactly the same fields (same OmitField object, same {Chan,Func} set) with the overlay index advancing exactly on retained fields, and that every call of the struct merge has a dominating struct-kind fact for its base (the 'non-struct call' panic precondition).",
         "Not decided: leaf values computed by reflection for arbitrary types/values. Assumes the documented Source contract (pointerified twin) and that T is a struct type."),
 "C02": ("def-use flow (who can see the caller's / a source's memory) + kind-exhaustiveness + universally-quantified reaching-condition checks of the copier's handlers (go/ssa)",
         "Decides that the caller's defaults are only type-inspected and deep-copied; compose merges a per-stack deep copy of each slot value into a fresh deep copy of the defaults; slots are only read after the identity-matched replacement; everything published derives from a compose result; the copier routes every reference-bearing kind, descends into exactly the exported fields, and in the Ptr/Map/Slice/Interface handlers every exit without freshly allocated (or memoised) storage is explained by nil input / already-distinct output.",
         "Not decided: deep equality of contents (reflection at run time). Chan/Func/UnsafePointer and unexported fields are shared by documented intent."),
 "C03": ("memo-discipline dominance rules over the copier's recursive call-graph component (go/ssa + call graph)",
         "Decides the mechanism that makes copying of cyclic/shared graphs terminate and preserve identity: every pointer dereference or map iteration feeding a descent in the copier's recursive component is dominated in the same function by a memo lookup keyed on that reference whose hit returns and by the memo registration; the interface handler has no reference-crossing descent of its own; no member starts a fresh copier; temporaries whose location is memoised are allocated per iteration.",
         "Not decided: equality of the copied contents; slices that contain themselves through an interface (outside the property's node family). Trusted: reflect.Value.Pointer identity."),
 "C20": ("pipeline-shape def-use rules + method-set selection depth (declared vs promoted) + reaching-condition truth tables + lock dominance (go/types + go/ssa)",
         "Decides that transforming source/decoder are translate -> inner(translated type) -> reverse-translate(same transformer) pipelines returning exactly the reverse-translated value and each tested error (wrapped, with a zero value); that the watch arguments handed to a wrapped watcher declare every value-carrying WatchArgs method themselves (not promoted), reverse-translate and forward to the same-named wrapped method; Blank's delegate / refuse-watcher-before-any-write / Done-forwarding predicates and that every access to its state is under its mutex; ReformatDialsTagSource wraps with a dials-tag reformatter.",
         "Not decided: the values flowing through (C10 covers the transformer's bookkeeping). Trusted: inner sources honour their contracts."),
 "C11": ("resolved mangler-chain extraction (types + constructor constants) + dominance/def-use on the lookup loop + who-may-call + error-propagation hops (go/ssa)",
         "Decides the environment source's pipeline and lookup discipline: the five-mangler chain by resolved type and constants; os.LookupEnv is the only environment API; a field is written only under its ok result, with the looked-up string, at the index whose dialsenv tag (prefixed exactly when Prefix != \"\") was looked up; nothing in the repository writes the environment; a parse error is tested and returned at each of the four hops up to Value; a nil *string stays unset.",
         "Not decided: generated names and parsed values (runtime strings; C15/C19 decide their structural parts)."),
 "C14": ("resolved mangler-chain extraction + reaching-condition checks of AliasMangler.Unmangle + kind-totality of its set-predicate (go/ssa)",
         "Decides that the alias mangler is the first, unconditional element of every alias-capable chain (env, flag, pflag, ez file decoder) with the documented tag list; that Unmangle returns the both-set error (naming the field) only when both copies are set and no value when both are set; that all set-tests use one predicate which never calls IsNil on a non-nilable kind; that the mangler recurses into both copies and strips the alias tags.",
         "Not decided: produced names/values; the transformer's positional bookkeeping (C10)."),
 "C18": ("call-graph funnel + argument resolution of the source list and Params literal + dominance/def-use ordering rules + extension truth table (go/ssa)",
         "Decides which calls happen in which order with which arguments in the single function all ez entry points funnel into: sources = (Blank, env, flags) over the caller's defaults; Params delays verification and suppresses global callbacks (constants) and forwards both callbacks; ConfigPath is evaluated on the View of that first stack; the file source (watching iff WatchConfigFile) enters only via SetSource on that Blank; every success return follows a tested EnableVerification, which on the file path follows a successful SetSource; one Events value is drained; failures are returned; extension table; alias first and set-to-slice in the file chain.",
         "Not decided: values. Relies on C04/C07/C09 (dials), C14 (alias placement), C20 (Blank) for what the called operations guarantee."),
 "C13": ("sibling agreement of four decoder pipelines (def-use shape + dominance) + resolved mangler chains + entry-point table (go/ssa)",
         "Decides that the JSON/YAML/TOML/Cue decoders are instances of one pipeline differing only in a table: all bytes read are handed to the library's whole-document entry point; the target is the address of the all-unset Translate() value of a transformer over the requested type; the same value is reverse-translated with the same transformer; every error (read, translate, unmarshal/compile, reverse) is returned with a zero Value; each chain copies the dials tag to the tag its library reads without overriding an existing one; JSON/Cue substitute Duration by ParsingDuration (string via ParseDuration, number via Int64, anything else an error) before the tag copy.",
         "Not decided: cross-format equality of decoded values and rejection of every malformed document (third-party parsers at run time; trusted)."),
 "C10": ("sibling agreement of every Mangle/Unmangle pair (arity vs tuple-index provenance) + induction/offset arithmetic of the Transformer + universally-quantified flag formulas (go/ssa)",
         "Decides the positional bookkeeping that makes reversal lossless: for all 9 manglers every tuple index read on the Unmangle side is admitted by Mangle's arities or a dominating length test (variable indices bounded or count-checked); ReverseTranslate's window and offset use the same len(state.out), manglers are unwound in descending order of how they were applied, states are stored at their field index; struct recursion excludes TextUnmarshalers by value and by pointer everywhere; flatten's any-child-set flag is old||nested / true-under-non-nil and gates the parent; rebuilt containers are make-built and zero results only follow nil tests; ShouldRecurse table.",
         "Not decided: translate/fill/reverse results on arbitrary reflect-built types (run-time computation)."),
 "C15": ("dominance + constant/size reasoning on every narrowing conversion of a parsed number (both amd64 and 386 type sizes) + error-propagation + writer/reader sibling agreement (go/ssa, go/types sizes)",
         "Decides the no-wrap clause completely: every conversion of a parsed number to a narrower or differently-signed type is discharged by the strconv bit size (constant <= result width, or unsafe.Sizeof of the same type parameter) or by a dominating reflect Overflow* test on reflect.Zero of the type whose kind selected the arm, with arm kind == result kind. Also: base 0 / trimming arguments, every strconv/scanner/Unquote/callback error reaches the caller, writers and readers agree on quoting, separators and signedness of integer formatting, duplicate keys are rejected before storing.",
         "Not decided: parse(format(v)) == v for all values and strings (a law over runtime strings). Trusted: strconv, reflect Overflow*, text/scanner."),
 "C12": ("who-may-call (Visit vs VisitAll) + universally-quantified reaching-condition check of the visit callback + def-use provenance of every registration default + kind-arm/type sibling table + dominance of the overflow helper (go/ssa)",
         "Decides for both flag packages: exactly one Visit and no VisitAll; the visit callback returns without writing only for an unknown name or unreadable value; Value reverse-translates the registration-time all-unset struct with its transformer; every registration's default derives from transform.GetField(sf, tmpl); in each kind arm Convert target, asserted type and arm kind agree; (std flag) the narrowing reflect conversion is dominated by willOverflow==false whose arms cover all int/uint/float/complex kinds with the matching Overflow method and an overflow is returned as the error; helper Sets accumulate after the first set; source-specific tag precedence.",
         "Not decided: flag-name strings and parsed values. Noted, not alarmed: pflag registers a 64-bit flag for uintptr without a range check (only matters on 32-bit targets)."),
 "C16": ("panic classification with per-class safety checks + reflect-kind abstract interpretation (dominating kind tests evaluated over all kinds, constructors, call-site propagation) + type-tie rules for Set/Convert/Append/SetMapIndex + index provenance + loop progress (go/ssa)",
         "Decides a guard discipline on the operations of the repository's own code that can panic or spin: all 19 panic statements are classified and their class condition checked; every reflect IsNil/Elem receiver is restricted to the kinds for which the call is defined; every reflect Set/Convert/Append/SetMapIndex in the parsing/transformation packages and the flag callbacks is tied to its destination type by a dominating test or by construction; string/slice indexing in the parsers and case converters has bounded provenance; every non-range loop has a recognised progress argument. 23 of ~160 sites are accepted through a reviewed idiom table (listed in the evidence as trivial obligations with their reasons).",
         "Not a proof of totality: third-party parsers are trusted; stack depth and reflect misuse outside the listed operations are not covered; idiom-table entries are reviewed by hand, not derived."),
 "C17": ("path (must-pass-through) and dominance rules over the watch loop's select arms and type switch (go/ssa)",
         "Decides necessary mechanisms of convergence that hold on every path of the watch loop: every wake-up that does not end the loop reaches the re-read before the next wait (only the file-event arm may skip it, only via its name filter); checksum recorded only after a successful decode and identical content mapped to the unchanged marker; existence decided by os.IsNotExist of the read error; after reading an existing file the symlink is re-resolved and the watches repaired (add before remove) before anything is reported; total dispatch (new value / ignore unchanged / report every other error); deferred Close/Done/Stop, return on context end, WG.Add before go.",
         "Not decided: convergence itself (liveness over real filesystem histories and timings). Trusted: fsnotify, the OS. Not armed: closing the watcher on Watch's error returns (observation in DESIGN.md)."),
 "C19": ("sibling agreement of matched encoder/decoder pairs (constants, alphabet, widths) + complete-scan shape of the initialism extractor (go/ssa)",
         "Decides only writer/reader agreement: each separator-based encoder joins with the rune its decoder splits on; no decoder rejects a digit inside a word and all reject a leading digit; every word a decoder emits is lower-cased (or validated lower-case); word starts are exactly past the separator's width; the initialism table holds non-empty upper-case constants and is scanned completely on every pass.",
         "NOT decided: Decode(Encode(ws)) == ws and the exact word splitting of Go identifiers - laws over runtime strings (the pinned tree is in fact wrong for UID, HTTPS, UUIDUTF8; recorded in DESIGN.md as outside static reach). Boundary-predicate arithmetic (e.g. < vs <= in firstCharAfterInitialism) is not checked."),
}

NOT_YET = {}

REASONS = {}

def main():
    props = [json.loads(l) for l in open("/verif/properties.jsonl")]
    fixes = subprocess.run("git -C /repo log --format=%h 433e9ab..HEAD", shell=True, stdout=subprocess.PIPE, text=True).stdout.split()
    checks, na = [], []
    for p in props:
        pid = p["id"]
        if pid in CLAIMED:
            tech, text, note = CLAIMED[pid]
            checks.append({
                "property_id": pid,
                "quick_cmd": f"bin/dialscheck -prop {pid} -tier quick",
                "thorough_cmd": f"bin/dialscheck -prop {pid} -tier thorough",
                "evidence_file": f"/verif/evidence/{pid}.json",
                "replay_cmd_template": f"bin/dialscheck -prop {pid} -tier quick -v",
                "engine": "dialscheck",
                "technique": tech,
                "level_claimed": {"category": "other", "text": "Static analysis of the current source: structural necessary conditions of the property decided on all paths. " + text + " Further rules were added for this property after four rounds of independently seeded changes and from confirmed defects; every rule with its text and instance count is listed in DESIGN_TABLES.md section A and summarised per property in DESIGN.md section 3 (the evidence file lists the obligations of the last run).", "design_ref": "DESIGN.md section " + pid},
                "level_note": note,
            })
        else:
            na.append({"property_id": pid, "reason": REASONS.get(pid, "rules for this property are not built yet in this revision (see DESIGN.md); no claim is made")})
    m = {
        "version": 1,
        "setup_cmd": ENVP + "cd /verif/checker && go build -o /verif/bin/dialscheck .",
        "hooks": {
            "guard": "verif",
            "enable": "no source hooks are needed: the checks analyse /repo's working tree as it is (go/packages), nothing is compiled with a tag",
            "baseline_off_cmd": "for m in $(cat /w/out/gomods.txt); do MF=$(cd /repo/$m && . /w/out/goenv.sh && gomodflag); (cd /repo/$m && go test $MF -json -vet=off -count=1 -timeout 25m ./...); done",
            "source_commits": list(reversed(fixes)),
            "add_only": True,
        },
        "engines": [{"name": "dialscheck", "path": "/verif/checker", "serves_properties": [c["property_id"] for c in checks],
                     "kind_free_text": "repository-specific static analyser (go/packages + go/types + go/ssa, x/tools v0.29.0): dominance, path, def-use, call-graph, predicate-table and sibling-agreement rules over the type-checked program; never executes dials"}],
        "checks": checks,
        "not_applicable": na,
        "notes": "All source_commits are unguarded 'fix:' repairs of genuine defects (see known_findings.json and DESIGN.md section 4); there are no instrumentation hooks. Every check re-loads /repo from the working tree on each run; thorough additionally analyses the !go1.19 variant (overlay) and GOARCH=386 and self-tests the rules on seeded breakages via overlays.",
    }
    json.dump(m, open("/verif/MANIFEST.json", "w"), indent=1)
    print("claimed:", [c["property_id"] for c in checks], "n/a:", len(na))

main()
